#!/usr/bin/env python3
"""Regenerates the mutant table of DESIGN.md section 9.2 from mutants/last_results.json
(written by `./check selftest mutants`, run WITH the repository's test suite)."""
import json, re
cat = json.load(open('/verif/mutants/catalogue.json'))
res = json.load(open('/verif/mutants/last_results.json'))
rows = ["| mutant | suite passes | caught by (rule, first failing run, minimised length) |",
        "|--------|--------------|-------------------------------------------------------|"]
for m in cat:
    r = res.get(m['name'])
    if not r or 'checks' not in r:
        rows.append(f"| `{m['name']}` | ? | not run |")
        continue
    cells = []
    for p, e in r['checks'].items():
        cells.append(f"{p}: {e['rule']} (run {e['run']}, {e['min_events']} ev)" if e.get('caught') else f"{p}: MISSED")
    tp = r.get('existing_tests_pass')
    rows.append(f"| `{m['name']}` | {'yes' if tp else ('no' if tp is False else '?')} | " + "; ".join(cells) + " |")
p = '/verif/DESIGN.md'
s = open(p).read()
a = s.index("<!-- MUTANT_TABLE_BEGIN -->") + len("<!-- MUTANT_TABLE_BEGIN -->\n")
b = s.index("<!-- MUTANT_TABLE_END -->")
s = s[:a] + "\n".join(rows) + "\n" + s[b:]
s = re.sub(r"holds \d+ small edits", f"holds {len(cat)} small edits", s)
open(p, 'w').write(s)
print(len(cat), "rows")
