#!/usr/bin/env python3
"""Fill author / caught_by / checks_run in /verif/seeded/<id>/meta.json from seeded/last_results.json.
usage: seed_meta.py "<author note>" <seed id>..."""
import json, os, sys
note, ids = sys.argv[1], sys.argv[2:]
base = "/verif/seeded"
lr = json.load(open(os.path.join(base, "last_results.json")))
for i in ids:
    mp = os.path.join(base, i, "meta.json")
    meta = json.load(open(mp))
    meta["author"] = "independent sub-agent given only the property text and a scratch worktree; " + note
    cells = []
    for p, e in lr.get(i, {}).items():
        if e.get("caught"):
            cells.append(f"{e['rule']} (quick tier, run {e['run']}, {e['min_events']} events)")
        else:
            cells.append(f"{p}: MISSED")
    meta["caught_by"] = "; ".join(cells) or "not run"
    meta["checks_run"] = ("./check selftest seeded (applies patch.diff to a scratch copy of /repo, runs ./check <property> there - "
                          "prod-profile batch first, then the checked profile - with the regression corpus switched off, replays the "
                          "minimised trace on the changed and on the unchanged tree in the profile recorded in the replay file)")
    json.dump(meta, open(mp, "w"), indent=1)
    print(i, "->", meta["caught_by"])
