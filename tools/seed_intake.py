#!/usr/bin/env python3
"""Intake of an independently written property-breaking change (see DESIGN.md section 9.4).
usage: seed_intake.py <workdir with wt/ and out/> <seed id> <property> "<needs>"
Confirms, in the scratch worktree: change applied -> existing tests pass and demo fails;
change reverted -> demo passes. Then files it under /verif/seeded/<seed id>/."""
import json, os, shutil, subprocess, sys
work, sid, prop, needs = sys.argv[1:5]
demo_flags = sys.argv[5] if len(sys.argv) > 5 else ""   # e.g. "--release" for a configuration-dependent demo
wt, out = os.path.join(work, "wt"), os.path.join(work, "out")
env = dict(os.environ, CARGO_NET_OFFLINE="true", CARGO_TARGET_DIR=os.path.join(work, "target"))
def run(cmd, cwd=wt):
    p = subprocess.run(cmd, shell=True, cwd=cwd, env=env, capture_output=True, text=True)
    return p.returncode, p.stdout + p.stderr
ran = []
def step(desc, cmd, want_ok):
    rc, o = run(cmd)
    ok = (rc == 0) == want_ok
    ran.append({"cmd": cmd, "expected": "pass" if want_ok else "fail", "observed": "pass" if rc == 0 else "fail"})
    print(("ok   " if ok else "BAD  ") + desc)
    if not ok:
        print(o[-1500:])
    return ok
# make sure the worktree holds exactly the patch
run("git reset -q && git checkout -- . && git clean -fdq -- tests src")
rc, o = run(f"git apply {out}/patch.diff")
assert rc == 0, o
good = step("existing tests pass with the change", "cargo test --offline", True)
shutil.copy(os.path.join(out, "demo.rs"), os.path.join(wt, "tests", "seed_demo.rs"))
good &= step("demo fails with the change", f"cargo test --offline {demo_flags} --test seed_demo".replace("  ", " "), False)
rc, o = run(f"git apply -R {out}/patch.diff")
assert rc == 0, o
good &= step("demo passes without the change", f"cargo test --offline {demo_flags} --test seed_demo".replace("  ", " "), True)
os.remove(os.path.join(wt, "tests", "seed_demo.rs"))
if not good:
    sys.exit(1)
dst = os.path.join("/verif/seeded", sid)
os.makedirs(dst, exist_ok=True)
for f in ("patch.diff", "demo.rs", "notes.md"):
    if os.path.exists(os.path.join(out, f)):
        shutil.copy(os.path.join(out, f), os.path.join(dst, f))
json.dump({"id": sid, "breaks": [prop], "needs_to_manifest": needs, "author": "independent sub-agent given only the property text and a scratch worktree",
           "confirmed_in_scratch_worktree": ran, "demo": f"demo.rs (copied to tests/seed_demo.rs; cargo test --offline {demo_flags} --test seed_demo)"},
          open(os.path.join(dst, "meta.json"), "w"), indent=1)
print("filed under", dst)
