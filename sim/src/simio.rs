//! Standard output and standard error behind the seam. Library code that prints a diagnostic
//! (`eprintln!` in a rarely taken branch, added by a later change) depends on something no trace
//! records: whether the process's stderr accepts the write. `eprintln!`/`println!` panic when it
//! does not (closed pipe, full disk). This module interposes `write` and `writev` for the whole
//! process, like `simclock` and `simenv`: a write to file descriptor 1 or 2 made while the calling
//! thread is inside an API region is counted and then either swallowed (reported as written; the
//! default, which also keeps the check's own output clean) or failed with EIO, as the run's
//! `stdio_fails` knob says. Every other write is the real system call.
//!
//! x86_64 Linux only; elsewhere the module compiles to the knob alone and writes stay real.

use std::cell::Cell;

thread_local! {
    static FAIL: Cell<bool> = const { Cell::new(false) };
    static WRITES: Cell<u64> = const { Cell::new(0) };
}

pub fn set_fail(on: bool) {
    FAIL.with(|c| c.set(on));
}
/// Writes to stdout/stderr attempted from inside API regions on this thread.
pub fn writes() -> u64 {
    WRITES.with(|c| c.get())
}

#[cfg(all(target_os = "linux", target_arch = "x86_64"))]
mod imp {
    use super::*;
    use std::os::raw::{c_int, c_void};

    #[repr(C)]
    pub struct IoVec {
        base: *const c_void,
        len: usize,
    }

    extern "C" {
        fn __errno_location() -> *mut c_int;
    }
    const EIO: c_int = 5;

    unsafe fn sys3(nr: i64, a: i64, b: i64, c: i64) -> i64 {
        let ret: i64;
        core::arch::asm!("syscall", inlateout("rax") nr => ret, in("rdi") a, in("rsi") b, in("rdx") c, lateout("rcx") _, lateout("r11") _, options(nostack));
        ret
    }
    unsafe fn finish(ret: i64) -> isize {
        if ret < 0 {
            *__errno_location() = (-ret) as c_int;
            -1
        } else {
            ret as isize
        }
    }
    /// `Some(answer)` if this write is simulated.
    unsafe fn simulated(fd: c_int, total: usize) -> Option<isize> {
        if (fd == 1 || fd == 2) && crate::apimon::in_api() {
            let _ = WRITES.try_with(|c| c.set(c.get() + 1));
            if FAIL.try_with(|c| c.get()).unwrap_or(false) {
                *__errno_location() = EIO;
                return Some(-1);
            }
            return Some(total as isize);
        }
        None
    }

    /// # Safety
    /// Same contract as the C function it replaces.
    #[no_mangle]
    pub unsafe extern "C" fn write(fd: c_int, buf: *const c_void, n: usize) -> isize {
        if let Some(r) = simulated(fd, n) {
            return r;
        }
        finish(sys3(1, fd as i64, buf as i64, n as i64))
    }

    /// # Safety
    /// Same contract as the C function it replaces.
    #[no_mangle]
    pub unsafe extern "C" fn writev(fd: c_int, iov: *const IoVec, cnt: c_int) -> isize {
        if (fd == 1 || fd == 2) && crate::apimon::in_api() {
            let mut total = 0usize;
            for i in 0..cnt.max(0) as usize {
                total = total.saturating_add((*iov.add(i)).len);
            }
            if let Some(r) = simulated(fd, total) {
                return r;
            }
        }
        finish(sys3(20, fd as i64, iov as i64, cnt as i64))
    }
}
