//! Trace minimiser: delta debugging on the decision trace. A candidate is accepted iff
//! re-execution violates the same rule id. Sound for every oracle because each judges the recorded
//! history: a shortened trace is just another history.

use crate::exec::Exec;
use crate::rules::{Violation, R};
use crate::trace::*;

pub struct Shrunk {
    pub trace: Trace,
    pub execs: usize,
    pub idx: usize,
    pub detail: String,
}

fn fails(t: &Trace, rule: R, execs: &mut usize, unknown: &dyn Fn(&Violation) -> bool) -> Option<(usize, String)> {
    // the budget is in units of an ordinary execution; a marathon of 2^24 rounds costs hundreds
    let heavy: u64 = t
        .events
        .iter()
        .map(|e| match e {
            Ev::Bulk { n, cycle } => *n as u64 * cycle.len().max(1) as u64,
            _ => 0,
        })
        .sum();
    *execs += 1 + (heavy / 100_000) as usize;
    let r = Exec::run(t);
    r.violations.iter().find(|v| v.rule == rule && unknown(v)).map(|v| (v.idx, v.detail.clone()))
}

/// `unknown` filters out violations that match a recorded finding: the minimised trace must still
/// show a violation that is not listed.
pub fn shrink(orig: &Trace, rule: R, budget: usize, unknown: &dyn Fn(&Violation) -> bool) -> Option<Shrunk> {
    let mut execs = 0;
    let (mut idx, mut detail) = fails(orig, rule, &mut execs, unknown)?;
    let mut cur = orig.clone();
    // nothing after the violating event can matter
    cur.events.truncate(idx + 1);

    let try_accept = |cand: Trace, cur: &mut Trace, idx: &mut usize, detail: &mut String, execs: &mut usize| -> bool {
        if cand == *cur {
            return false;
        }
        if let Some((i, d)) = fails(&cand, rule, execs, unknown) {
            *cur = cand;
            cur.events.truncate(i + 1);
            *idx = i;
            *detail = d;
            true
        } else {
            false
        }
    };

    loop {
        let mut progress = false;
        // ---- remove chunks of events (halves -> single events)
        let mut chunk = (cur.events.len() / 2).max(1);
        loop {
            let mut start = 0;
            while start < cur.events.len() && execs < budget {
                let end = (start + chunk).min(cur.events.len());
                let mut cand = cur.clone();
                cand.events.drain(start..end);
                if try_accept(cand, &mut cur, &mut idx, &mut detail, &mut execs) {
                    progress = true;
                } else {
                    start = end;
                }
            }
            if chunk == 1 || execs >= budget {
                break;
            }
            chunk /= 2;
        }
        if cur.stdio_fails && execs < budget {
            let mut cand = cur.clone();
            cand.stdio_fails = false;
            if try_accept(cand, &mut cur, &mut idx, &mut detail, &mut execs) {
                progress = true;
            }
        }
        if cur.env_mode != 0 && execs < budget {
            let mut cand = cur.clone();
            cand.env_mode = 0;
            if try_accept(cand, &mut cur, &mut idx, &mut detail, &mut execs) {
                progress = true;
            }
        }
        if cur.ctor_default && execs < budget {
            let mut cand = cur.clone();
            cand.ctor_default = false;
            if try_accept(cand, &mut cur, &mut idx, &mut detail, &mut execs) {
                progress = true;
            }
        }
        // ---- simplify the clock's read step
        for t in [0u128, 1] {
            if execs >= budget || cur.read_step_ns <= t {
                break;
            }
            let mut cand = cur.clone();
            cand.read_step_ns = t;
            if try_accept(cand, &mut cur, &mut idx, &mut detail, &mut execs) {
                progress = true;
                break;
            }
        }
        // ---- simplify the timeout
        for t in [0u128, 1, 1000] {
            if execs >= budget || cur.timeout_ns <= t {
                break;
            }
            let mut cand = cur.clone();
            let old = cur.timeout_ns;
            cand.timeout_ns = t;
            // keep clock steps that were expressed relative to the old timeout meaningful
            for e in cand.events.iter_mut() {
                if let Ev::Adv { ns } = e {
                    if *ns == old {
                        *ns = t;
                    } else if *ns == old.saturating_sub(1) {
                        *ns = t.saturating_sub(1);
                    } else if *ns == old.saturating_add(1) {
                        *ns = t + 1;
                    }
                }
            }
            if try_accept(cand, &mut cur, &mut idx, &mut detail, &mut execs) {
                progress = true;
                break;
            }
        }
        // ---- simplify single events
        let mut i = 0;
        while i < cur.events.len() && execs < budget {
            let cands: Vec<Ev> = simpler(&cur.events[i], cur.timeout_ns);
            for c in cands {
                if execs >= budget {
                    break;
                }
                let mut cand = cur.clone();
                cand.events[i] = c;
                if try_accept(cand, &mut cur, &mut idx, &mut detail, &mut execs) {
                    progress = true;
                    break;
                }
            }
            i += 1;
        }
        // ---- renumber channels towards 0 (whole trace at once, per channel)
        for from in (1..16u8).rev() {
            if execs >= budget {
                break;
            }
            if !uses_channel(&cur, from) {
                continue;
            }
            for to in 0..from {
                if uses_channel(&cur, to) {
                    continue;
                }
                let cand = map_channel(&cur, from, to);
                if try_accept(cand, &mut cur, &mut idx, &mut detail, &mut execs) {
                    progress = true;
                }
                break;
            }
        }
        if !progress || execs >= budget {
            break;
        }
    }
    Some(Shrunk { trace: cur, execs, idx, detail })
}

fn uses_channel(t: &Trace, c: u8) -> bool {
    t.events.iter().any(|e| match e {
        Ev::EncCc14 { ch, .. } | Ev::EncPn { ch, .. } | Ev::Poll { ch } => *ch == c,
        Ev::Feed { b, .. } => b[0] >= 0x80 && b[0] < 0xF0 && b[0] & 0x0F == c,
        Ev::Part { x, .. } => x[0] & 0x0F != 0 && c == 0xFF, // corrupted parts: channel unknown here
        Ev::Fork { burst, .. } => burst.iter().any(|b| b[0] & 0x0F == c),
        _ => false,
    })
}

fn map_channel(t: &Trace, from: u8, to: u8) -> Trace {
    let mut n = t.clone();
    for e in n.events.iter_mut() {
        match e {
            Ev::EncCc14 { ch, .. } | Ev::EncPn { ch, .. } | Ev::Poll { ch } => {
                if *ch == from {
                    *ch = to;
                }
            }
            Ev::Feed { b, .. } => {
                if b[0] >= 0x80 && b[0] < 0xF0 && b[0] & 0x0F == from {
                    b[0] = (b[0] & 0xF0) | to;
                }
            }
            Ev::Fork { burst, .. } => {
                for b in burst.iter_mut() {
                    if b[0] & 0x0F == from {
                        b[0] = (b[0] & 0xF0) | to;
                    }
                }
            }
            _ => {}
        }
    }
    n
}

/// Simpler variants of one event, most aggressive first.
fn simpler(e: &Ev, timeout: u128) -> Vec<Ev> {
    let mut v = Vec::new();
    match e {
        Ev::Feed { b, repr } => {
            if *repr != 0 {
                v.push(Ev::Feed { b: *b, repr: 0 });
            }
            for (k, targets) in [(2usize, [0u8, 1, 2]), (1usize, [0u8, 1, 2])] {
                // controller numbers are structure: only shrink data byte 1 when it is not a CC
                if k == 1 && b[0] & 0xF0 == 0xB0 {
                    continue;
                }
                for t in targets {
                    if b[k] > t {
                        let mut nb = *b;
                        nb[k] = t;
                        v.push(Ev::Feed { b: nb, repr: *repr });
                    }
                }
            }
        }
        Ev::Part { g, i, repr, x } => {
            if *x != [0, 0, 0] {
                v.push(Ev::Part { g: *g, i: *i, repr: *repr, x: [0, 0, 0] });
            }
            if *repr != 0 {
                v.push(Ev::Part { g: *g, i: *i, repr: 0, x: *x });
            }
        }
        Ev::EncCc14 { g, ch, cn, val, fac } => {
            for nv in [0u16, 1, 128, 129] {
                if *val > nv {
                    v.push(Ev::EncCc14 { g: *g, ch: *ch, cn: *cn, val: nv, fac: *fac });
                }
            }
            for ncn in [0u8, 1, 32] {
                if *cn > ncn && (*cn < 32) == (ncn < 32) {
                    v.push(Ev::EncCc14 { g: *g, ch: *ch, cn: ncn, val: *val, fac: *fac });
                }
            }
            if *fac != 0 {
                v.push(Ev::EncCc14 { g: *g, ch: *ch, cn: *cn, val: *val, fac: 0 });
            }
        }
        Ev::EncPn { g, ch, num, val, reg, kind, order, fac } => {
            for nn in [0u16, 1, 128, 129] {
                if *num > nn {
                    v.push(Ev::EncPn { g: *g, ch: *ch, num: nn, val: *val, reg: *reg, kind: *kind, order: *order, fac: *fac });
                }
            }
            for nv in [0u16, 1, 128, 129] {
                if *val > nv && (*kind == K_14BIT || nv < 128) {
                    v.push(Ev::EncPn { g: *g, ch: *ch, num: *num, val: nv, reg: *reg, kind: *kind, order: *order, fac: *fac });
                }
            }
            if *reg {
                v.push(Ev::EncPn { g: *g, ch: *ch, num: *num, val: *val, reg: false, kind: *kind, order: *order, fac: *fac });
            }
            if *fac != 0 {
                v.push(Ev::EncPn { g: *g, ch: *ch, num: *num, val: *val, reg: *reg, kind: *kind, order: *order, fac: 0 });
            }
        }
        Ev::Adv { ns } => {
            for t in [0u128, 1, timeout.saturating_sub(1), timeout, timeout.saturating_add(1)] {
                if *ns > t {
                    v.push(Ev::Adv { ns: t });
                }
            }
        }
        Ev::Fork { k, burst } => {
            if !burst.is_empty() {
                v.push(Ev::Fork { k: *k, burst: Vec::new() });
            }
            if *k > 1 {
                v.push(Ev::Fork { k: 1, burst: burst.clone() });
            }
        }
        Ev::Resets { n } => {
            v.push(Ev::Reset);
            for t in [2u32, n / 2, n - 1] {
                if t >= 2 && t < *n {
                    v.push(Ev::Resets { n: t });
                }
            }
        }
        Ev::Repeat { k, n } => {
            for t in [1u16, 2, n / 2, n - 1] {
                if t >= 1 && t < *n {
                    v.push(Ev::Repeat { k: *k, n: t });
                }
            }
            if *k > 1 {
                v.push(Ev::Repeat { k: *k - 1, n: *n });
            }
        }
        Ev::Bulk { n, cycle } => {
            for t in [0u32, 1, 254, 255, 256, 65535, 65536, 1 << 20, (1 << 24) - 1, 1 << 24, n / 2, n.saturating_sub(1)] {
                if t < *n {
                    v.push(Ev::Bulk { n: t, cycle: cycle.clone() });
                }
            }
            if cycle.len() > 1 {
                for i in 0..cycle.len() {
                    let mut c = cycle.clone();
                    c.remove(i);
                    v.push(Ev::Bulk { n: *n, cycle: c });
                }
            }
        }
        Ev::Misplaced { n, offset } => {
            for t in [1u8, n / 2, n - 1] {
                if t >= 1 && t < *n {
                    v.push(Ev::Misplaced { n: t, offset: *offset });
                }
            }
        }
        Ev::Unwinding { n } => {
            for t in [1u8, n / 2, n - 1] {
                if t >= 1 && t < *n {
                    v.push(Ev::Unwinding { n: t });
                }
            }
        }
        Ev::Hop { n } => {
            for t in [1u8, n / 2, n - 1] {
                if t >= 1 && t < *n {
                    v.push(Ev::Hop { n: t });
                }
            }
        }
        Ev::Poll { .. } | Ev::Reset | Ev::Snapshot | Ev::Restore | Ev::FeedAbort { .. } | Ev::Liar { .. } => {}
    }
    v
}
