//! Minimal JSON value, writer and parser (no dependencies; enough for traces, replay files and
//! evidence). Numbers are kept as i128 when integral, f64 otherwise.

use std::fmt::Write as _;

#[derive(Clone, Debug, PartialEq)]
pub enum J {
    Null,
    Bool(bool),
    Int(i128),
    Num(f64),
    Str(String),
    Arr(Vec<J>),
    Obj(Vec<(String, J)>),
}

impl J {
    pub fn obj() -> J {
        J::Obj(Vec::new())
    }
    pub fn set(mut self, k: &str, v: J) -> J {
        if let J::Obj(ref mut o) = self {
            o.push((k.to_string(), v));
        }
        self
    }
    pub fn put(&mut self, k: &str, v: J) {
        if let J::Obj(ref mut o) = self {
            o.push((k.to_string(), v));
        }
    }
    pub fn get(&self, k: &str) -> Option<&J> {
        match self {
            J::Obj(o) => o.iter().find(|(kk, _)| kk == k).map(|(_, v)| v),
            _ => None,
        }
    }
    pub fn as_int(&self) -> Option<i128> {
        match self {
            J::Int(i) => Some(*i),
            J::Str(s) => s.parse().ok(),
            _ => None,
        }
    }
    pub fn as_str(&self) -> Option<&str> {
        match self {
            J::Str(s) => Some(s),
            _ => None,
        }
    }
    pub fn as_arr(&self) -> Option<&[J]> {
        match self {
            J::Arr(a) => Some(a),
            _ => None,
        }
    }
    pub fn s(x: &str) -> J {
        J::Str(x.to_string())
    }
    pub fn i<T: Into<i128>>(x: T) -> J {
        J::Int(x.into())
    }
    pub fn u(x: u64) -> J {
        J::Int(x as i128)
    }
    pub fn us(x: usize) -> J {
        J::Int(x as i128)
    }
    pub fn arr<I: IntoIterator<Item = J>>(it: I) -> J {
        J::Arr(it.into_iter().collect())
    }

    pub fn write(&self, out: &mut String, indent: usize, level: usize) {
        match self {
            J::Null => out.push_str("null"),
            J::Bool(b) => out.push_str(if *b { "true" } else { "false" }),
            J::Int(i) => {
                let _ = write!(out, "{}", i);
            }
            J::Num(f) => {
                if f.is_finite() {
                    let _ = write!(out, "{}", f);
                } else {
                    out.push_str("null");
                }
            }
            J::Str(s) => write_str(out, s),
            J::Arr(a) => {
                // arrays of scalars stay on one line
                let flat = indent == 0 || a.iter().all(|x| !matches!(x, J::Arr(_) | J::Obj(_)));
                out.push('[');
                for (i, x) in a.iter().enumerate() {
                    if i > 0 {
                        out.push(',');
                    }
                    if !flat {
                        out.push('\n');
                        pad(out, indent * (level + 1));
                    } else if i > 0 {
                        out.push(' ');
                    }
                    x.write(out, if flat { 0 } else { indent }, level + 1);
                }
                if !flat && !a.is_empty() {
                    out.push('\n');
                    pad(out, indent * level);
                }
                out.push(']');
            }
            J::Obj(o) => {
                out.push('{');
                for (i, (k, v)) in o.iter().enumerate() {
                    if i > 0 {
                        out.push(',');
                    }
                    if indent > 0 {
                        out.push('\n');
                        pad(out, indent * (level + 1));
                    } else if i > 0 {
                        out.push(' ');
                    }
                    write_str(out, k);
                    out.push_str(": ");
                    v.write(out, indent, level + 1);
                }
                if indent > 0 && !o.is_empty() {
                    out.push('\n');
                    pad(out, indent * level);
                }
                out.push('}');
            }
        }
    }

    pub fn pretty(&self) -> String {
        let mut s = String::new();
        self.write(&mut s, 1, 0);
        s.push('\n');
        s
    }
    pub fn compact(&self) -> String {
        let mut s = String::new();
        self.write(&mut s, 0, 0);
        s
    }
}

fn pad(out: &mut String, n: usize) {
    for _ in 0..n {
        out.push(' ');
    }
}

fn write_str(out: &mut String, s: &str) {
    out.push('"');
    for c in s.chars() {
        match c {
            '"' => out.push_str("\\\""),
            '\\' => out.push_str("\\\\"),
            '\n' => out.push_str("\\n"),
            '\r' => out.push_str("\\r"),
            '\t' => out.push_str("\\t"),
            c if (c as u32) < 0x20 => {
                let _ = write!(out, "\\u{:04x}", c as u32);
            }
            c => out.push(c),
        }
    }
    out.push('"');
}

pub fn parse(text: &str) -> Result<J, String> {
    let b = text.as_bytes();
    let mut p = 0usize;
    let v = parse_value(b, &mut p)?;
    skip_ws(b, &mut p);
    if p != b.len() {
        return Err(format!("trailing data at byte {}", p));
    }
    Ok(v)
}

fn skip_ws(b: &[u8], p: &mut usize) {
    while *p < b.len() && matches!(b[*p], b' ' | b'\n' | b'\r' | b'\t') {
        *p += 1;
    }
}

fn parse_value(b: &[u8], p: &mut usize) -> Result<J, String> {
    skip_ws(b, p);
    if *p >= b.len() {
        return Err("unexpected end".into());
    }
    match b[*p] {
        b'n' => lit(b, p, "null", J::Null),
        b't' => lit(b, p, "true", J::Bool(true)),
        b'f' => lit(b, p, "false", J::Bool(false)),
        b'"' => Ok(J::Str(parse_string(b, p)?)),
        b'[' => {
            *p += 1;
            let mut v = Vec::new();
            skip_ws(b, p);
            if *p < b.len() && b[*p] == b']' {
                *p += 1;
                return Ok(J::Arr(v));
            }
            loop {
                v.push(parse_value(b, p)?);
                skip_ws(b, p);
                if *p >= b.len() {
                    return Err("unterminated array".into());
                }
                match b[*p] {
                    b',' => *p += 1,
                    b']' => {
                        *p += 1;
                        return Ok(J::Arr(v));
                    }
                    c => return Err(format!("unexpected '{}' in array at {}", c as char, *p)),
                }
            }
        }
        b'{' => {
            *p += 1;
            let mut v = Vec::new();
            skip_ws(b, p);
            if *p < b.len() && b[*p] == b'}' {
                *p += 1;
                return Ok(J::Obj(v));
            }
            loop {
                skip_ws(b, p);
                if *p >= b.len() || b[*p] != b'"' {
                    return Err(format!("expected key at {}", *p));
                }
                let k = parse_string(b, p)?;
                skip_ws(b, p);
                if *p >= b.len() || b[*p] != b':' {
                    return Err(format!("expected ':' at {}", *p));
                }
                *p += 1;
                let val = parse_value(b, p)?;
                v.push((k, val));
                skip_ws(b, p);
                if *p >= b.len() {
                    return Err("unterminated object".into());
                }
                match b[*p] {
                    b',' => *p += 1,
                    b'}' => {
                        *p += 1;
                        return Ok(J::Obj(v));
                    }
                    c => return Err(format!("unexpected '{}' in object at {}", c as char, *p)),
                }
            }
        }
        _ => {
            let start = *p;
            while *p < b.len() && matches!(b[*p], b'-' | b'+' | b'.' | b'e' | b'E' | b'0'..=b'9') {
                *p += 1;
            }
            let s = std::str::from_utf8(&b[start..*p]).map_err(|e| e.to_string())?;
            if s.is_empty() {
                return Err(format!("unexpected byte at {}", start));
            }
            if let Ok(i) = s.parse::<i128>() {
                Ok(J::Int(i))
            } else {
                s.parse::<f64>().map(J::Num).map_err(|e| format!("bad number '{}': {}", s, e))
            }
        }
    }
}

fn lit(b: &[u8], p: &mut usize, word: &str, v: J) -> Result<J, String> {
    if b[*p..].starts_with(word.as_bytes()) {
        *p += word.len();
        Ok(v)
    } else {
        Err(format!("bad literal at {}", *p))
    }
}

fn parse_string(b: &[u8], p: &mut usize) -> Result<String, String> {
    *p += 1; // opening quote
    let mut out: Vec<u8> = Vec::new();
    while *p < b.len() {
        match b[*p] {
            b'"' => {
                *p += 1;
                return String::from_utf8(out).map_err(|e| e.to_string());
            }
            b'\\' => {
                *p += 1;
                if *p >= b.len() {
                    break;
                }
                match b[*p] {
                    b'n' => out.push(b'\n'),
                    b'r' => out.push(b'\r'),
                    b't' => out.push(b'\t'),
                    b'b' => out.push(8),
                    b'f' => out.push(12),
                    b'u' => {
                        if *p + 4 >= b.len() {
                            return Err("bad \\u escape".into());
                        }
                        let h = std::str::from_utf8(&b[*p + 1..*p + 5]).map_err(|e| e.to_string())?;
                        let cp = u32::from_str_radix(h, 16).map_err(|e| e.to_string())?;
                        let ch = char::from_u32(cp).unwrap_or('?');
                        let mut tmp = [0u8; 4];
                        out.extend_from_slice(ch.encode_utf8(&mut tmp).as_bytes());
                        *p += 4;
                    }
                    c => out.push(c),
                }
                *p += 1;
            }
            c => {
                out.push(c);
                *p += 1;
            }
        }
    }
    Err("unterminated string".into())
}
