//! Every clock behind the seam. The guarded hook in /repo gives the polling scanner a mock
//! `Instant`, but code that reads a clock *directly* (`std::time::Instant`, `SystemTime`, added by a
//! later change) would bypass it and make the simulation blind. This module interposes
//! `clock_gettime` for the whole process: while the calling thread is inside an API region the
//! answer is the simulated clock of that thread, outside (harness timing, std internals) it is the
//! real clock, obtained by a raw system call. Rust's std reaches `clock_gettime` through this
//! symbol because the executable's definition wins over libc's at link time.
//!
//! x86_64 Linux only; elsewhere the module compiles to nothing and direct clock reads stay real.

use std::cell::Cell;
use std::time::Duration;

thread_local! {
    static STEP: Cell<Duration> = const { Cell::new(Duration::ZERO) };
    static DIRECT_READS: Cell<u64> = const { Cell::new(0) };
}

/// Keep the interposed clock's read step in line with the hook's.
pub fn set_read_step(d: Duration) {
    STEP.with(|s| s.set(d));
}

pub fn read_step() -> Duration {
    STEP.with(|s| s.get())
}

/// Number of clock reads that reached the OS interface from inside API regions on this thread
/// (i.e. clock reads that did not go through the guarded hook).
pub fn direct_reads() -> u64 {
    DIRECT_READS.with(|c| c.get())
}

#[cfg(all(target_os = "linux", target_arch = "x86_64"))]
mod imp {
    use super::*;
    use helgoboss_midi::verif_hooks as clk;

    #[repr(C)]
    pub struct Timespec {
        tv_sec: i64,
        tv_nsec: i64,
    }

    const BASE_MONOTONIC_S: i64 = 1_000_000;
    const BASE_REALTIME_S: i64 = 1_700_000_000;

    unsafe fn real_clock_gettime(id: i32, tp: *mut Timespec) -> i32 {
        let ret: i64;
        core::arch::asm!("syscall", inlateout("rax") 228i64 => ret, in("rdi") id as i64, in("rsi") tp, lateout("rcx") _, lateout("r11") _, options(nostack));
        ret as i32
    }

    /// # Safety
    /// Same contract as the C function it replaces.
    #[no_mangle]
    pub unsafe extern "C" fn clock_gettime(id: i32, tp: *mut Timespec) -> i32 {
        if tp.is_null() || !crate::apimon::in_api() {
            return real_clock_gettime(id, tp);
        }
        // inside an API region: the simulated clock of this thread
        let base = match id {
            0 | 5 => BASE_REALTIME_S,                 // CLOCK_REALTIME, CLOCK_REALTIME_COARSE
            1 | 4 | 6 | 7 => BASE_MONOTONIC_S,        // MONOTONIC, MONOTONIC_RAW, MONOTONIC_COARSE, BOOTTIME
            _ => return real_clock_gettime(id, tp),
        };
        let now = clk::now();
        let step = STEP.try_with(|s| s.get()).unwrap_or(Duration::ZERO);
        if !step.is_zero() {
            clk::set_now(now.saturating_add(step));
        }
        let _ = DIRECT_READS.try_with(|c| c.set(c.get() + 1));
        let secs = now.as_secs().min((i64::MAX / 4) as u64) as i64;
        (*tp).tv_sec = base.saturating_add(secs);
        (*tp).tv_nsec = now.subsec_nanos() as i64;
        0
    }
}
