//! midisim — deterministic simulation with fault injection for helgoboss-midi.
//!
//! One engine serves all claimed properties; `--property` selects whose rules decide the exit
//! code and which preset shifts the world's weights.

mod apimon;
mod exec;
mod gen;
mod json;
mod oracles;
mod probes;
mod rng;
mod rules;
mod shrink;
mod simclock;
mod simenv;
mod simio;
mod surface;
mod trace;

use exec::{prop_index, Exec, PROPS};
use json::J;
use probes::Probes;
use rules::*;
use std::sync::atomic::{AtomicU64, Ordering};
use std::sync::Arc;
use trace::*;

#[global_allocator]
static ALLOC: apimon::Counting = apimon::Counting;

const EXIT_VIOLATION: i32 = 1;
const EXIT_HARNESS: i32 = 2;

fn die(msg: &str) -> ! {
    eprintln!("midisim: harness error: {}", msg);
    std::process::exit(EXIT_HARNESS);
}

struct Args {
    cmd: String,
    kv: Vec<(String, String)>,
    pos: Vec<String>,
}
impl Args {
    fn parse() -> Args {
        let mut it = std::env::args().skip(1);
        let cmd = it.next().unwrap_or_else(|| "help".into());
        let mut kv = Vec::new();
        let mut pos = Vec::new();
        let rest: Vec<String> = it.collect();
        let mut i = 0;
        while i < rest.len() {
            if let Some(k) = rest[i].strip_prefix("--") {
                let v = rest.get(i + 1).cloned().unwrap_or_default();
                kv.push((k.to_string(), v));
                i += 2;
            } else {
                pos.push(rest[i].clone());
                i += 1;
            }
        }
        Args { cmd, kv, pos }
    }
    fn get(&self, k: &str) -> Option<&str> {
        self.kv.iter().find(|(kk, _)| kk == k).map(|(_, v)| v.as_str())
    }
    fn num(&self, k: &str) -> Option<u64> {
        self.get(k).map(|v| v.parse().unwrap_or_else(|_| die(&format!("--{} wants a number, got '{}'", k, v))))
    }
}

fn profile_name() -> &'static str {
    "release"
}

fn default_runs(prop: &str, tier: &str, profile: &str) -> u64 {
    let slow = profile == "dev";
    match (tier, slow) {
        ("quick", false) => {
            if prop == "C15" {
                400_000
            } else {
                300_000
            }
        }
        ("quick", true) => 25_000,
        (_, false) => 12_000_000,
        (_, true) => 600_000,
    }
}

#[derive(Clone)]
struct Sample {
    run: u64,
    trace: Trace,
    cfg: J,
    note: &'static str,
}

struct WorkerOut {
    probes: Probes,
    nontrivial_hashes: Vec<u64>,
    signatures: Vec<u64>,
    all_hashes_distinct_estimate: u64,
    failure: Option<(u64, Trace, Violation, J)>,
    other_rule_hits: [u64; N_RULES],
    other_first: Option<(u64, Violation)>,
    samples: [Option<Sample>; 3],
    digest: u64,
    known_hits: Vec<u64>,
}

#[allow(clippy::too_many_arguments)]
fn worker(prop: &'static str, thorough: bool, seed: u64, first_run: u64, runs: u64, w: u64, threads: u64, min_fail: Arc<AtomicU64>, next: Arc<AtomicU64>, want_digest: bool, known: Arc<Vec<Known>>) -> WorkerOut {
    apimon::reset_thread_counters();
    let pi = prop_index(prop).unwrap();
    let mut preset = gen::preset_for(prop);
    if thorough {
        preset.long_pm = 25;
    }
    let mut out = WorkerOut {
        probes: Probes::new(),
        nontrivial_hashes: Vec::new(),
        signatures: Vec::new(),
        all_hashes_distinct_estimate: 0,
        failure: None,
        other_rule_hits: [0; N_RULES],
        other_first: None,
        samples: [None, None, None],
        digest: 0,
        known_hits: vec![0; known.len()],
    };
    // dynamic work distribution in chunks of run indices: which worker executes a run never
    // matters (a run's trace, verdict and probes depend on (seed, index) only; totals are sums)
    const CHUNK: u64 = 32;
    let _ = (w, threads);
    let end = first_run + runs;
    let mut i = end;
    let mut chunk_end = end;
    loop {
        if i >= chunk_end {
            let a = next.fetch_add(CHUNK, Ordering::Relaxed);
            if a >= end {
                break;
            }
            i = a;
            chunk_end = (a + CHUNK).min(end);
        }
        if i > min_fail.load(Ordering::Relaxed) {
            break;
        }
        let mut rng = rng::Rng::for_run(seed, i, 0);
        let mut gstats = Probes::new();
        let (mut trace, cfg) = gen::Gen::generate(&mut rng, &preset, &mut gstats, i);
        let mut lane1 = rng::Rng::for_run(seed, i, 1);
        gen::add_hops(&mut trace, &mut lane1, &preset, &mut gstats);
        gen::add_aborts(&mut trace, &mut lane1, &mut gstats);
        gen::pick_env_mode(&mut trace, &mut lane1);
        gen::add_marathon(&mut trace, &mut lane1, &preset, &mut gstats);
        gen::add_liars(&mut trace, &mut lane1, &mut gstats);
        gen::pick_stdio(&mut trace, &mut lane1, &mut gstats);
        let res = Exec::run(&trace);
        out.probes.add(&gstats);
        out.probes.add(&res.probes);
        let h = trace.hash64();
        if want_digest {
            // self test: the replay format must round-trip every generated trace exactly
            let back = json::parse(&trace.to_json().pretty()).and_then(|j| Trace::from_json(&j));
            if back.as_ref() != Ok(&trace) {
                die(&format!("trace of run {} does not survive the JSON round trip", i));
            }
            // order-independent digest of (run index, trace hash, verdicts, probe fingerprint)
            let mut f = Fnv::new();
            f.u64(i);
            f.u64(h);
            f.u64(res.signature);
            f.u64(res.probes.fingerprint());
            for v in res.violations.iter() {
                f.u64(v.rule as u64);
                f.u64(v.idx as u64);
            }
            out.digest = out.digest.wrapping_add(f.0);
        }
        if res.witness[pi] {
            out.nontrivial_hashes.push(h);
            out.signatures.push(res.signature);
            // samples: shortest non-trivial; one with faults; one multi-channel (smallest run index wins ties)
            let len = trace.events.len();
            let better = |cur: &Option<Sample>, l: usize| match cur {
                None => true,
                Some(s) => l < s.trace.events.len(),
            };
            if better(&out.samples[0], len) {
                out.samples[0] = Some(Sample { run: i, trace: trace.clone(), cfg: cfg.to_json(), note: "shortest non-trivial run of this worker" });
            }
            if !cfg.fault_free && len <= 40 && out.samples[1].is_none() && gstats.faults_fired.iter().sum::<u64>() >= 2 {
                out.samples[1] = Some(Sample { run: i, trace: trace.clone(), cfg: cfg.to_json(), note: "non-trivial run with injected faults" });
            }
            if cfg.channels.len() >= 3 && len <= 40 && out.samples[2].is_none() {
                out.samples[2] = Some(Sample { run: i, trace: trace.clone(), cfg: cfg.to_json(), note: "non-trivial multi-channel run" });
            }
        }
        let mut seen_known = vec![false; known.len()];
        for v in res.violations.iter() {
            if v.rule.property() == prop {
                if let Some(k) = known.iter().position(|k| k.matches(prop, v)) {
                    // a recorded finding: count the run once, keep searching
                    if !seen_known[k] {
                        seen_known[k] = true;
                        out.known_hits[k] += 1;
                    }
                    continue;
                }
                if out.failure.is_none() {
                    out.failure = Some((i, trace.clone(), v.clone(), cfg.to_json()));
                    min_fail.fetch_min(i, Ordering::Relaxed);
                }
                break;
            }
        }
        for v in res.violations.iter() {
            if v.rule.property() != prop {
                out.other_rule_hits[v.rule as usize] += 1;
                if out.other_first.is_none() {
                    out.other_first = Some((i, v.clone()));
                }
            }
        }
        if out.failure.is_some() {
            break;
        }
        i += 1;
    }
    out
}

fn count_distinct(mut v: Vec<u64>) -> usize {
    v.sort_unstable();
    v.dedup();
    v.len()
}

/// A genuine defect recorded in /verif/known_findings.json instead of being repaired. It is
/// identified by property, rule id and substrings that must all occur in the violation detail
/// (the detail names the specific input / history that fails), so that a different violation of
/// the same property - another rule, or the same rule on other inputs - is still reported.
#[derive(Clone)]
pub struct Known {
    property: String,
    rule: String,
    detail_contains: Vec<String>,
    what: String,
}
impl Known {
    fn matches(&self, prop: &str, v: &Violation) -> bool {
        self.property == prop && self.rule == v.rule.id() && self.detail_contains.iter().all(|s| v.detail.contains(s.as_str()))
    }
}

fn load_known(path: Option<&str>) -> Vec<Known> {
    let Some(p) = path else { return Vec::new() };
    let Ok(text) = std::fs::read_to_string(p) else { return Vec::new() };
    let j = json::parse(&text).unwrap_or_else(|e| die(&format!("{}: {}", p, e)));
    let mut out = Vec::new();
    if let Some(a) = j.get("findings").and_then(|x| x.as_arr()) {
        for f in a {
            let g = |k: &str| f.get(k).and_then(|x| x.as_str()).unwrap_or("").to_string();
            let dc = f.get("detail_contains").and_then(|x| x.as_arr()).map(|a| a.iter().filter_map(|x| x.as_str().map(|s| s.to_string())).collect()).unwrap_or_default();
            if g("property").is_empty() || g("rule").is_empty() {
                die(&format!("{}: a finding needs 'property' and 'rule'", p));
            }
            out.push(Known { property: g("property"), rule: g("rule"), detail_contains: dc, what: g("what") });
        }
    }
    out
}

/// Value-free shape of a (minimised) trace; identifies a known finding.
fn shape(t: &Trace) -> String {
    let mut s = String::new();
    s.push_str(if t.timeout_ns == 0 { "t0" } else { "t+" });
    if t.read_step_ns > 0 {
        s.push_str(" tick");
    }
    if t.ctor_default {
        s.push_str(" default()");
    }
    if t.env_mode != 0 {
        s.push_str(" env");
    }
    if t.stdio_fails {
        s.push_str(" stdio-fails");
    }
    for e in t.events.iter() {
        s.push(' ');
        match e {
            Ev::EncCc14 { cn, .. } => s.push_str(if *cn < 32 { "enc_cc14" } else { "enc_cc14_bad" }),
            Ev::EncPn { kind, order, .. } => {
                s.push_str("enc_pn:");
                s.push_str(["7bit", "14bit", "inc", "dec"][*kind as usize]);
                s.push_str(if *order == 0 { ":msb_first" } else { ":lsb_first" });
            }
            Ev::Part { i, x, .. } => {
                s.push_str(&format!("part{}", i));
                if *x != [0, 0, 0] {
                    s.push('~');
                }
            }
            Ev::Feed { b, .. } => {
                if b[0] & 0xF0 == 0xB0 {
                    s.push_str(&format!("cc{}", b[1]));
                } else {
                    s.push_str(&format!("st{:02x}", b[0] & 0xF0));
                }
            }
            Ev::Poll { .. } => s.push_str("poll"),
            Ev::Adv { ns } => s.push_str(if *ns == 0 {
                "adv0"
            } else if *ns < t.timeout_ns {
                "adv<"
            } else if *ns == t.timeout_ns {
                "adv="
            } else {
                "adv>"
            }),
            Ev::Reset => s.push_str("reset"),
            Ev::Resets { .. } => s.push_str("resets"),
            Ev::Repeat { k, .. } => s.push_str(&format!("repeat{}", k)),
            Ev::Snapshot => s.push_str("snapshot"),
            Ev::Restore => s.push_str("restore"),
            Ev::Hop { .. } => s.push_str("hop"),
            Ev::Unwinding { .. } => s.push_str("unwinding"),
            Ev::Misplaced { .. } => s.push_str("misplaced"),
            Ev::Liar { .. } => s.push_str("liar"),
            Ev::FeedAbort { .. } => s.push_str("abort"),
            Ev::Bulk { .. } => s.push_str("bulk"),
            Ev::Fork { .. } => s.push_str("fork"),
        }
    }
    s
}

fn replay_json(prop: &str, seed: u64, run: u64, v: &Violation, min: &Trace, orig: &Trace, cfg: &J, shrink_execs: usize, profile: &str) -> J {
    J::obj()
        .set("format", J::s("midisim-replay-1"))
        .set("property", J::s(prop))
        .set("rule", J::s(v.rule.id()))
        .set("rule_text", J::s(RULE_TEXT[v.rule as usize]))
        .set("verif_seed", J::u(seed))
        .set("run_index", J::u(run))
        .set("event_index", J::us(v.idx))
        .set("detail", J::s(&v.detail))
        .set("profile", J::s(profile))
        .set("shape", J::s(&shape(min)))
        .set("shrink_executions", J::us(shrink_execs))
        .set("knobs", cfg.clone())
        .set("trace", min.to_json())
        .set("original_trace", orig.to_json())
}

fn cmd_replay(a: &Args) -> i32 {
    let prop = a.get("property").unwrap_or_else(|| die("replay needs --property"));
    let path = a.pos.first().unwrap_or_else(|| die("replay needs a file"));
    let text = std::fs::read_to_string(path).unwrap_or_else(|e| die(&format!("{}: {}", path, e)));
    let j = json::parse(&text).unwrap_or_else(|e| die(&format!("{}: {}", path, e)));
    let tj = j.get("trace").unwrap_or(&j);
    let trace = Trace::from_json(tj).unwrap_or_else(|e| die(&format!("{}: {}", path, e)));
    apimon::set_full_surface(prop == "C18");
    let known = load_known(a.get("known"));
    let res = Exec::run(&trace);
    if a.get("verbose").is_some() {
        println!("executed {} steps ({} inside soak loops), {} deliveries, {} polls, {} resets", res.probes.steps, res.probes.soak_steps, res.probes.deliveries, res.probes.polls, res.probes.resets);
    }
    let mut hit = false;
    for v in res.violations.iter() {
        let mine = v.rule.property() == prop;
        if mine {
            if let Some(k) = known.iter().find(|k| k.matches(prop, v)) {
                println!("KNOWN-FINDING: property={} rule={} {} (event {}: {})", prop, k.rule, k.what, v.idx, v.detail);
                continue;
            }
        }
        println!("{} rule={} event={} {}", if mine { "violated:" } else { "also (other property):" }, v.rule.id(), v.idx, v.detail);
        if mine && !hit {
            hit = true;
            println!("VIOLATION property={} replay={}", prop, path);
        }
    }
    if hit {
        EXIT_VIOLATION
    } else {
        println!("replay of {} ({} events): no rule of {} violated", path, trace.events.len(), prop);
        0
    }
}

fn cmd_gen(a: &Args) -> i32 {
    let prop: &'static str = PROPS.iter().find(|p| Some(**p) == a.get("property")).copied().unwrap_or("C14");
    let seed = a.num("seed").unwrap_or(1);
    let run = a.num("run").unwrap_or(0);
    let preset = gen::preset_for(prop);
    let mut rng = rng::Rng::for_run(seed, run, 0);
    let mut st = Probes::new();
    let (mut trace, cfg) = gen::Gen::generate(&mut rng, &preset, &mut st, run);
    let mut lane1 = rng::Rng::for_run(seed, run, 1);
    gen::add_hops(&mut trace, &mut lane1, &preset, &mut st);
    gen::add_aborts(&mut trace, &mut lane1, &mut st);
    gen::pick_env_mode(&mut trace, &mut lane1);
    gen::add_marathon(&mut trace, &mut lane1, &preset, &mut st);
    gen::add_liars(&mut trace, &mut lane1, &mut st);
    gen::pick_stdio(&mut trace, &mut lane1, &mut st);
    let res = Exec::run(&trace);
    println!("{}", J::obj().set("knobs", cfg.to_json()).set("trace", trace.to_json()).pretty());
    for v in res.violations.iter() {
        println!("violation rule={} event={} {}", v.rule.id(), v.idx, v.detail);
    }
    0
}

fn main() {
    let a = Args::parse();
    // silent inside API regions (expected/monitored panics), loud for harness bugs
    let default_hook = std::panic::take_hook();
    std::panic::set_hook(Box::new(move |info| {
        if !apimon::in_api() {
            default_hook(info);
        }
    }));
    let code = match a.cmd.as_str() {
        "run" => cmd_run(&a),
        "replay" => cmd_replay(&a),
        "gen" => cmd_gen(&a),
        "rules" => {
            for r in ALL_RULES.iter() {
                println!("{}\t{}", r.id(), RULE_TEXT[*r as usize]);
            }
            0
        }
        _ => {
            eprintln!("usage: midisim run --property Cxx [--tier quick|thorough] [--seed N] [--runs N] [--threads N] [--evidence FILE] [--replay-dir DIR] [--known FILE] [--digest 1]\n       midisim replay --property Cxx FILE\n       midisim gen --property Cxx --seed N --run I\n       midisim rules");
            EXIT_HARNESS
        }
    };
    std::process::exit(code);
}

fn cmd_run(a: &Args) -> i32 {
    let t0 = std::time::Instant::now();
    let prop: &'static str = match PROPS.iter().find(|p| Some(**p) == a.get("property")) {
        Some(p) => p,
        None => die("run needs --property, one of C07 C08 C10 C11 C12 C13 C14 C15 C16 C17 C18"),
    };
    let pi = prop_index(prop).unwrap();
    apimon::set_full_surface(prop == "C18");
    let tier = a.get("tier").map(|s| s.to_string()).or_else(|| std::env::var("VERIF_TIER").ok()).unwrap_or_else(|| "quick".into());
    let tier = if tier == "thorough" { "thorough" } else { "quick" };
    let thorough = tier == "thorough";
    let seed: u64 = a.num("seed").or_else(|| std::env::var("VERIF_SEED").ok().and_then(|s| s.trim().parse().ok())).unwrap_or(1);
    let profile = a.get("profile").unwrap_or(profile_name()).to_string();
    let runs = a.num("runs").unwrap_or_else(|| default_runs(prop, tier, &profile));
    let first_run = a.num("first-run").unwrap_or(0);
    let threads = a.num("threads").unwrap_or(16).max(1);
    let want_digest = a.get("digest").is_some();
    let known = Arc::new(load_known(a.get("known")));
    println!("midisim: property={} tier={} VERIF_SEED={} runs={} first_run={} threads={} profile={}", prop, tier, seed, runs, first_run, threads, profile);

    // ---- regression corpus: minimised histories that once exposed a (planted) defect; they are
    // replayed before the search, so a change that brings such a defect back is caught at once
    let mut corpus_traces = 0u64;
    let mut corpus_events = 0u64;
    if let Some(dir) = a.get("corpus") {
        let d = format!("{}/{}", dir, prop);
        let mut files: Vec<String> = std::fs::read_dir(&d).map(|it| it.filter_map(|e| e.ok()).map(|e| e.path().to_string_lossy().to_string()).filter(|p| p.ends_with(".json")).collect()).unwrap_or_default();
        files.sort();
        for f in files {
            let text = std::fs::read_to_string(&f).unwrap_or_else(|e| die(&format!("{}: {}", f, e)));
            let j = json::parse(&text).unwrap_or_else(|e| die(&format!("{}: {}", f, e)));
            let trace = Trace::from_json(j.get("trace").unwrap_or(&j)).unwrap_or_else(|e| die(&format!("{}: {}", f, e)));
            corpus_traces += 1;
            corpus_events += trace.events.len() as u64;
            let res = Exec::run(&trace);
            if let Some(v) = res.violations.iter().find(|v| v.rule.property() == prop && !known.iter().any(|k| k.matches(prop, v))) {
                println!("violated rule {} by corpus history {} (event {}): {}", v.rule.id(), f, v.idx, v.detail);
                println!("VIOLATION property={} replay={}", prop, f);
                return EXIT_VIOLATION;
            }
        }
    }
    apimon::reset_thread_counters();
    let min_fail = Arc::new(AtomicU64::new(u64::MAX));
    let next = Arc::new(AtomicU64::new(first_run));
    let handles: Vec<_> = (0..threads)
        .map(|w| {
            let mf = min_fail.clone();
            let kn = known.clone();
            let nx = next.clone();
            std::thread::Builder::new().stack_size(16 << 20).spawn(move || worker(prop, thorough, seed, first_run, runs, w, threads, mf, nx, want_digest, kn)).unwrap()
        })
        .collect();
    let mut outs = Vec::new();
    for h in handles {
        match h.join() {
            Ok(o) => outs.push(o),
            Err(_) => die("a simulation worker panicked outside an API region (harness bug)"),
        }
    }
    let mut probes = Probes::new();
    let mut hashes = Vec::new();
    let mut sigs = Vec::new();
    let mut digest = 0u64;
    let mut other = [0u64; N_RULES];
    let mut other_first: Option<(u64, Violation)> = None;
    let mut failure: Option<(u64, Trace, Violation, J)> = None;
    let mut samples: [Option<Sample>; 3] = [None, None, None];
    let mut known_hits = vec![0u64; known.len()];
    for o in outs {
        for (k, h) in o.known_hits.iter().enumerate() {
            known_hits[k] += h;
        }
        probes.add(&o.probes);
        hashes.extend(o.nontrivial_hashes);
        sigs.extend(o.signatures);
        digest = digest.wrapping_add(o.digest);
        let _ = o.all_hashes_distinct_estimate;
        for i in 0..N_RULES {
            other[i] += o.other_rule_hits[i];
        }
        if let Some((i, v)) = o.other_first {
            if other_first.as_ref().map(|(j, _)| i < *j).unwrap_or(true) {
                other_first = Some((i, v));
            }
        }
        if let Some(f) = o.failure {
            if failure.as_ref().map(|g| f.0 < g.0).unwrap_or(true) {
                failure = Some(f);
            }
        }
        for k in 0..3 {
            if let Some(s) = &o.samples[k] {
                let better = match &samples[k] {
                    None => true,
                    Some(c) => {
                        if k == 0 {
                            (s.trace.events.len(), s.run) < (c.trace.events.len(), c.run)
                        } else {
                            s.run < c.run
                        }
                    }
                };
                if better {
                    samples[k] = Some(s.clone());
                }
            }
        }
    }
    let nontrivial_runs = hashes.len();
    let distinct_nontrivial = count_distinct(hashes);
    let distinct_sigs = count_distinct(sigs);
    let sim_wall = t0.elapsed().as_secs_f64();

    // ---- failure handling: minimise, write replay, verify replay in this process
    let mut violations = 0;
    let mut exit = 0;
    let mut replay_path = String::new();
    let mut failure_json = J::Null;
    if let Some((run, trace, v, cfg)) = &failure {
        let kn = known.clone();
        let unknown = move |x: &Violation| !kn.iter().any(|k| k.matches(prop, x));
        let sh = shrink::shrink(trace, v.rule, 20_000, &unknown);
        let isolated = sh.is_some();
        let (min, execs, v2) = match sh {
            Some(s) => {
                let v2 = Violation { idx: s.idx, rule: v.rule, detail: s.detail.clone() };
                (s.trace, s.execs, v2)
            }
            None => (trace.clone(), 0, v.clone()),
        };
        violations = 1;
        exit = EXIT_VIOLATION;
        let dir = a.get("replay-dir").unwrap_or("/verif/replays").to_string();
        let dir = format!("{}/{}", dir, prop);
        let _ = std::fs::create_dir_all(&dir);
        replay_path = format!("{}/{}-{}-{}.json", dir, seed, run, v.rule.id());
        let rj = replay_json(prop, seed, *run, &v2, &min, trace, cfg, execs, &profile);
        if let Err(e) = std::fs::write(&replay_path, rj.pretty()) {
            die(&format!("cannot write {}: {}", replay_path, e));
        }
        failure_json = J::obj().set("run_index", J::u(*run)).set("rule", J::s(v.rule.id())).set("event_index", J::us(v2.idx)).set("detail", J::s(&v2.detail)).set("replay", J::s(&replay_path)).set("minimised_events", J::us(min.events.len())).set("original_events", J::us(trace.events.len())).set("reproduced_when_re_executed_alone", J::Bool(isolated));
        if !isolated {
            // cannot happen unless scanner values share state across threads (statics in the crate):
            // the 16 workers of the search are then 16 hosts that disturb each other
            println!("note: this violation did NOT reproduce when its trace was re-executed alone in this process: the result depended on other runs executing concurrently, i.e. on state shared between scanner values across threads. The replay file holds the unminimised trace; replaying it (one thread) may not show the violation.");
        }
        println!("violated rule {} in run {} (seed {}): {}", v.rule.id(), run, seed, v2.detail);
        println!("  {}", RULE_TEXT[v.rule as usize]);
        println!("  minimised from {} to {} events in {} re-executions: {}", trace.events.len(), min.events.len(), execs, min.to_json().compact());
        println!("VIOLATION property={} replay={}", prop, replay_path);
    }
    let _ = &replay_path;
    // every listed finding of this property is announced, with how often this batch reproduced it
    for (k, kn) in known.iter().enumerate() {
        if kn.property == prop {
            println!("KNOWN-FINDING: property={} rule={} {} (reproduced in {} runs of this batch)", prop, kn.rule, kn.what, known_hits[k]);
        }
    }

    // ---- witness probe: the batch must have explored something relevant
    let witness_runs = probes.witness[pi];
    let starved = failure.is_none() && witness_runs == 0;

    // ---- evidence
    let wall = t0.elapsed().as_secs_f64();
    if let Some(path) = a.get("evidence") {
        let mut ev = evidence_json(a.get("also-ran").unwrap_or(""), prop, tier, seed, runs, first_run, threads, &profile, &probes, nontrivial_runs, distinct_nontrivial, distinct_sigs, &samples, &other, &other_first, violations, &failure_json, sim_wall, wall, digest, want_digest);
        if let J::Obj(ref mut o) = ev {
            if let Some((_, cov)) = o.iter_mut().find(|(k, _)| k == "coverage") {
                cov.put("regression_corpus", J::obj().set("histories_replayed_before_the_search", J::u(corpus_traces)).set("events", J::u(corpus_events)));
            }
        }
        if let Some(parent) = std::path::Path::new(path).parent() {
            let _ = std::fs::create_dir_all(parent);
        }
        let tmp = format!("{}.tmp", path);
        std::fs::write(&tmp, ev.pretty()).unwrap_or_else(|e| die(&format!("cannot write {}: {}", tmp, e)));
        std::fs::rename(&tmp, path).unwrap_or_else(|e| die(&format!("cannot rename {}: {}", tmp, e)));
    }
    let own_evals: u64 = ALL_RULES.iter().filter(|r| r.property() == prop).map(|r| probes.rule_evals[*r as usize]).sum();
    println!(
        "midisim: {} runs, {} steps, {:.0} runs/s; {} non-trivial runs for {} ({} distinct traces, {} distinct schedule signatures); {} rule evaluations of {}; wall {:.1}s",
        probes.runs,
        probes.steps,
        probes.runs as f64 / sim_wall.max(1e-9),
        nontrivial_runs,
        prop,
        distinct_nontrivial,
        distinct_sigs,
        own_evals,
        prop,
        wall
    );
    if want_digest {
        println!("digest={:016x} probes={:016x}", digest, probes.fingerprint());
    }
    let others: Vec<String> = ALL_RULES.iter().filter(|r| other[**r as usize] > 0).map(|r| format!("{}x{}", r.id(), other[*r as usize])).collect();
    if !others.is_empty() {
        println!("note: rules of other properties fired in this batch (not this check's verdict): {}", others.join(" "));
        if let Some((i, v)) = &other_first {
            println!("note: first: run {} rule {} event {}: {}", i, v.rule.id(), v.idx, v.detail);
        }
    }
    if starved {
        eprintln!("midisim: harness error: no run of this batch reached a witness probe of {} — nothing relevant was explored", prop);
        return EXIT_HARNESS;
    }
    exit
}

#[allow(clippy::too_many_arguments)]
fn evidence_json(
    also_ran: &str,
    prop: &str,
    tier: &str,
    seed: u64,
    runs: u64,
    first_run: u64,
    threads: u64,
    profile: &str,
    p: &Probes,
    nontrivial_runs: usize,
    distinct_nontrivial: usize,
    distinct_sigs: usize,
    samples: &[Option<Sample>; 3],
    other: &[u64; N_RULES],
    other_first: &Option<(u64, Violation)>,
    violations: i32,
    failure: &J,
    sim_wall: f64,
    wall: f64,
    digest: u64,
    want_digest: bool,
) -> J {
    let witness_rule = match prop {
        "C07" => "at least one encoded 14-bit CC pair was delivered intact as consecutive feeds and judged by C07.roundtrip",
        "C08" => "the run contains a justified report and an LSB that the model does not justify",
        "C10" => "at least one encoded (N)RPN group (or running unit) was delivered intact and consecutively and judged by C10.roundtrip / C10.running",
        "C11" => "the run contains a justified report and a data/inc/dec byte arriving while a number half is missing",
        "C12" => "the recogniser was inside a documented sentence for at least one feed or poll",
        "C13" => "at least one poll happened while a timeout was running (pending MSB or unpaired LSB)",
        "C14" => "the polling scanner reported at least one message",
        "C15" => "a message was delivered while its own channel and at least one other channel had in-flight state, or a system message arrived with state in flight",
        "C16" => "a non-contributing message was delivered to a channel with in-flight state",
        "C17" => "a reset landed on in-flight state and was followed by at least one feed or poll",
        _ => "at least one scanner reported a message (all API regions of the run are monitored)",
    };
    let mut cov = J::obj();
    cov.put("evaluations", J::u(p.runs));
    cov.put("distinct_nontrivial", J::us(distinct_nontrivial));
    cov.put(
        "rule",
        J::Str(format!(
            "Each evaluation is one simulated run: a seeded scheduler (xoshiro256**, stream = f(VERIF_SEED, run index)) draws a swarm configuration and a decision trace (talkers, wire faults, poll timer, operator resets, clock) which is executed against the real scanners/encoders with all history observers on. A run is non-trivial for {} iff: {}. Distinct = distinct 64-bit hash of the full decision trace (values included), counted exactly by sort+dedup over the non-trivial runs.",
            prop, witness_rule
        )),
    );
    let mut sam = Vec::new();
    for s in samples.iter().flatten() {
        sam.push(J::obj().set("run_index", J::u(s.run)).set("note", J::s(s.note)).set("knobs", s.cfg.clone()).set("trace", s.trace.to_json()));
    }
    cov.put("samples", J::Arr(sam));
    cov.put("non_trivial_runs", J::us(nontrivial_runs));
    cov.put("distinct_schedule_signatures", J::us(distinct_sigs));
    cov.put("steps", J::u(p.steps));
    cov.put("runs_per_second", J::Num((p.runs as f64 / sim_wall.max(1e-9)).round()));
    cov.put("runs_per_hour", J::Num((p.runs as f64 / sim_wall.max(1e-9) * 3600.0).round()));
    cov.put("first_run_index", J::u(first_run));
    cov.put("runs_requested", J::u(runs));
    cov.put("worker_threads", J::u(threads));
    cov.put("profile", J::s(profile));
    if !also_ran.is_empty() {
        cov.put("also_ran_before_this_batch", J::s(also_ran));
    }
    cov.put("simulated_time_ns_finite_part", J::Str(p.sim_time_ns.to_string()));
    cov.put("infinite_clock_jumps", J::u(p.infinite_jumps));
    cov.put("events", J::obj().set("deliveries", J::u(p.deliveries)).set("polls", J::u(p.polls)).set("resets", J::u(p.resets)).set("clock_advances", J::u(p.advances)).set("forks", J::u(p.forks)).set("snapshots", J::u(p.snapshots)).set("restores", J::u(p.restores)).set("bare_resets_inside_reset_storms", J::u(p.reset_storm_resets)).set("soak_loops", J::u(p.soak_loops)).set("steps_inside_soak_loops", J::u(p.soak_steps)).set("scanner_debug_dumps", J::u(p.scanner_debug_dumps)).set("reported_message_debug_and_hash_checks", J::u(p.message_debug_hash_checks)).set("reported_message_hash_mismatch", J::u(p.message_hash_mismatch)).set("marathons", J::u(p.bulk_events)).set("marathon_rounds_on_the_fast_path", J::u(p.bulk_fast_rounds)).set("marathon_feeds_on_the_fast_path_per_instance", J::u(p.bulk_fast_feeds)).set("marathons_of_at_least_65536_rounds", J::u(p.bulk_rounds_max_2pow16)).set("marathons_of_at_least_2pow20_rounds", J::u(p.bulk_rounds_max_2pow20)).set("marathons_of_at_least_2pow24_rounds", J::u(p.bulk_rounds_max_2pow24)).set("aborted_feeds", J::u(p.aborted_feeds)).set("aborted_feed_calls_that_unwound", J::u(p.aborted_feed_calls_unwound)).set("aborted_feed_calls_that_completed_and_were_rolled_back", J::u(p.aborted_feed_calls_completed_and_rolled_back)).set("unwinding_windows", J::u(p.unwinding_windows)).set("calls_on_the_main_instance_made_from_a_destructor_during_unwinding", J::u(p.calls_from_an_unwinding_destructor)).set("self_contradicting_messages_fed", J::u(p.liar_feeds)).set("events_not_judged_between_such_a_message_and_the_next_reset_or_restore", J::u(p.events_not_judged_after_a_liar)).set("resets_judged_after_such_a_message", J::u(p.resets_judged_after_a_liar)).set("misplaced_windows", J::u(p.misplaced_windows)).set("calls_on_the_main_instance_made_on_a_copy_at_an_odd_address", J::u(p.calls_on_a_misplaced_copy)).set("thread_hop_windows", J::u(p.thread_hop_windows)).set("calls_on_the_main_instance_executed_on_another_os_thread", J::u(p.calls_on_another_thread)).set("enc_cc14", J::u(p.enc_cc14)).set("enc_pn", J::u(p.enc_pn)).set("ingest_rejected", J::u(p.ingest_rejected)).set("ingest_mismatch", J::u(p.ingest_mismatch)).set("factory_rebuild_mismatch", J::u(p.factory_rebuild_mismatch)).set("accessor_mismatch", J::u(p.accessor_mismatch)).set("telemetry_mismatch", J::u(p.telemetry_mismatch)).set("garbled_text_parses_ok_plus_calls", J::u(p.garbled_parses)));
    cov.put("reports", J::obj().set("cc14", J::u(p.reports_cc14)).set("pn", J::u(p.reports_pn)).set("polling_feed", J::u(p.reports_polling_feed)).set("polling_poll", J::u(p.reports_polling_poll)));
    let mut ff = J::obj();
    let mut fl = J::obj();
    for i in 0..gen::N_FAULTS {
        ff.put(gen::FAULT_NAMES[i], J::u(p.faults_fired[i]));
        fl.put(gen::FAULT_NAMES[i], J::u(p.faults_in_flight[i]));
    }
    cov.put("faults_fired", ff);
    cov.put("faults_landed_in_flight", fl);
    cov.put("fault_free_runs", J::u(p.fault_free_runs));
    cov.put("multi_channel_runs", J::u(p.multi_channel_runs));
    let mut tc = J::obj();
    for k in 0..3 {
        tc.put(probes::TIMEOUT_CLASS[k], J::u(p.timeout_class_runs[k]));
    }
    cov.put("runs_by_timeout_class", tc);
    let mut re = J::obj();
    for r in ALL_RULES.iter() {
        if r.property() == prop {
            re.put(r.id(), J::u(p.rule_evals[*r as usize]));
        }
    }
    cov.put("rule_evaluations", re);
    let mut ra = J::obj();
    for r in ALL_RULES.iter() {
        if r.property() != prop {
            ra.put(r.id(), J::u(p.rule_evals[*r as usize]));
        }
    }
    cov.put("rule_evaluations_other_properties", ra);
    cov.put(
        "roundtrip_groups",
        J::obj()
            .set("C07_checked", J::u(p.rt_c07_checked))
            .set("C07_skipped_not_adjacent_or_touched_by_fault", J::u(p.rt_c07_skipped))
            .set("C10_checked", J::u(p.rt_c10_checked))
            .set("C10_running_units_checked", J::u(p.rt_c10_running_checked))
            .set("C10_skipped", J::u(p.rt_c10_skipped))
            .set("C12_checked", J::u(p.rt_c12_checked))
            .set("C12_abandoned_interleaved_or_touched_by_fault", J::u(p.rt_c12_abandoned))
            .set("C12_unfinished_at_end_of_run", J::u(p.rt_c12_unfinished)),
    );
    cov.put("abstract_cells_C08", p.c08_cells_json());
    cov.put("abstract_cells_C11", p.c11_cells_json());
    cov.put("abstract_cells_polling_recogniser", p.rec_cells_json());
    cov.put("poll_timing_table", p.poll_timing_json());
    let (hit, tot) = p.pair_matrix_cells();
    cov.put("channel_pair_matrix_cells", J::obj().set("hit", J::us(hit)).set("total", J::us(tot)));
    cov.put("status_bytes_seen_on_inflight_state", J::us(Probes::count_nonzero(&p.status_inflight)));
    cov.put("noncontributing_controller_numbers_seen_on_inflight_state", J::obj().set("cc14_scanner_of_64", J::us(Probes::count_nonzero(&p.cn_inflight_cc14))).set("pn_scanners_of_120", J::us(Probes::count_nonzero(&p.cn_inflight_pn))));
    cov.put(
        "reset_cells",
        J::obj()
            .set("cc14 idle", J::u(p.reset_cells[0]))
            .set("cc14 in flight", J::u(p.reset_cells[1]))
            .set("pn idle", J::u(p.reset_cells[2]))
            .set("pn in flight", J::u(p.reset_cells[3]))
            .set("polling idle", J::u(p.reset_cells[4]))
            .set("polling in flight", J::u(p.reset_cells[5])),
    );
    cov.put("shadow_instances", J::obj().set("t5_clock_jump_probes", J::u(p.t5_probes)).set("fresh_twin_steps", J::u(p.fresh_twin_steps)).set("fork_lockstep_steps", J::u(p.fork_lockstep_steps)).set("telemetry_calls", J::u(p.telemetry_calls)).set("documented_panic_calls", J::u(p.bad_argument_ctor)));
    let mut rp = J::obj();
    for (i, n) in ["RawShortMessage", "StructuredShortMessage", "harness type (byte getters only)", "harness type (overrides to_bytes)"].iter().enumerate() {
        rp.put(n, J::u(p.repr_used[i]));
    }
    cov.put("representation_fed_to_main_scanner", rp);
    cov.put("events_per_channel", J::arr(p.channels_used.iter().map(|x| J::u(*x))));
    let mut wj = J::obj();
    for (i, pr) in PROPS.iter().enumerate() {
        wj.put(pr, J::u(p.witness[i]));
    }
    cov.put("witness_runs_per_property", wj);
    cov.put("hook_clock_reads", J::u(p.clock_reads));
    cov.put("clock_reads_bypassing_the_hook_answered_by_the_interposed_clock_gettime", J::u(p.direct_clock_reads));
    cov.put("environment_lookups_inside_api_regions_answered_by_the_interposed_getenv", J::u(p.env_reads));
    cov.put("writes_to_stdout_or_stderr_from_inside_api_regions_answered_by_the_interposed_write", J::u(p.stdio_writes_inside_api_regions));
    cov.put("runs_in_which_such_writes_would_fail_with_EIO", J::u(p.stdio_mode_runs[1]));
    cov.put("runs_per_environment_mode", J::obj().set(crate::simenv::MODE_NAMES[0], J::u(p.env_mode_runs[0])).set(crate::simenv::MODE_NAMES[1], J::u(p.env_mode_runs[1])).set(crate::simenv::MODE_NAMES[2], J::u(p.env_mode_runs[2])).set(crate::simenv::MODE_NAMES[3], J::u(p.env_mode_runs[3])));
    cov.put("time_passing_inside_calls", J::obj().set("runs_with_a_clock_read_step", J::u(p.faults_fired[gen::F_CLOCK_TICK])).set("steps_during_which_the_clock_moved", J::u(p.calls_during_which_time_passed)).set("polls_whose_deadline_fell_inside_the_call", J::u(p.polls_straddling_deadline)));
    let mut ac = J::obj();
    for i in 0..(apimon::L::_count as usize) {
        ac.put(apimon::LABEL_NAMES[i], J::u(p.api_calls[i]));
    }
    cov.put("api_calls_in_monitored_regions", ac);
    if prop == "C18" {
        cov.put(
            "api_surface_not_driven",
            J::arr([
                J::s("TimeCodeQuarterFrame/TimeCodeType accessors beyond From<U7>; test_util shorthands; from_bytes_unchecked/new_unchecked (unsafe)"),
                J::s("documented panics other than ControlChange14BitMessage::new(cn > 31): out-of-range arguments to newtype ::new, wrong category for the generic factory constructors"),
                J::s("serde (feature not built)"),
            ]),
        );
    }
    let mut oj = J::obj();
    for r in ALL_RULES.iter() {
        if other[*r as usize] > 0 {
            oj.put(r.id(), J::u(other[*r as usize]));
        }
    }
    cov.put("violations_of_other_properties_rules_seen", oj);
    if let Some((i, v)) = other_first {
        cov.put("first_other_violation", J::obj().set("run_index", J::u(*i)).set("rule", J::s(v.rule.id())).set("detail", J::s(&v.detail)));
    }
    if *failure != J::Null {
        cov.put("failure", failure.clone());
    }
    if want_digest {
        cov.put("determinism_digest", J::Str(format!("{:016x}", digest)));
    }
    cov.put(
        "components",
        J::obj()
            .set(
                "real_code",
                J::arr([
                    J::s("ControlChange14BitMessageScanner, ParameterNumberMessageScanner, PollingParameterNumberMessageScanner (new/default/feed/poll/reset/==/Copy)"),
                    J::s("ControlChange14BitMessage and ParameterNumberMessage: constructors, accessors, encoders (both factories, both byte orders)"),
                    J::s("RawShortMessage::from_bytes, U7::try_from, StructuredShortMessage via to_structured/to_other/from_other, ShortMessage default methods on two harness-defined implementors"),
                    J::s("Channel/U7/U14/ControllerNumber new/get/Display/FromStr, ControllerNumber predicates and constants"),
                ]),
            )
            .set("simulated", J::arr([J::s("clock (guarded hook: thread-local mock Instant; plus process-wide clock_gettime interposition inside API regions, so that direct std::time reads see the same simulated clock)"), J::s("MIDI rig: talkers, wire/merger with faults, poll timer, operator, system talker"), J::s("host context of a call on the main instance: which OS thread makes it, whether it is made from a destructor during unwinding, at which address offset the scanner value lives (trace events hop / unwinding / misplaced)"), J::s("third-party ShortMessage implementors: well-behaved (two layouts), with a panicking getter (aborted feed), self-contradicting or impure (nothing judged until the next reset)"), J::s("process environment (interposed getenv, run knob env_mode) and stdout/stderr (interposed write/writev, run knob stdio_fails)"), J::s("fmt writers of the host (roomy, nearly full, failing)")])),
    );
    J::obj()
        .set("property_id", J::s(prop))
        .set("tier", J::s(tier))
        .set("seed", J::u(seed))
        .set("level", J::s("exploration"))
        .set("coverage", cov)
        .set(
            "assumptions",
            J::arr([
                J::s("derived PartialEq of the scanners covers all of their state (used for 'no effect' and 'equal to new')"),
                J::s("the hook Instant (thread-local Duration, saturating elapsed) is a faithful stand-in for a monotonic clock"),
                J::s("each scanner is used from one thread at a time (the API is &mut self)"),
                J::s("seeded sampling of histories, schedules and faults: evidence, not proof"),
            ]),
        )
        .set("wall_s", J::Num((wall * 1000.0).round() / 1000.0))
        .set("violations", J::i(violations))
}
