//! History observers and reference models. They classify delivered messages from their three
//! bytes with their own arithmetic and never call into the crate.
//!
//! Principle: property-shaped, not implementation-shaped. C08 and C11 fully determine the
//! output, so their oracles are tiny exact reference models. C12-C14 leave behaviour open in
//! places; their observer is permissive there (see DESIGN.md appendix A).

use crate::rules::*;
use std::time::Duration;

pub struct Sink {
    pub idx: usize,
    pub evals: [u64; N_RULES],
    pub viol: Vec<Violation>,
    /// the main instance was fed something no reference model can follow (a message object that
    /// contradicts itself): nothing is judged until the next reset or restore puts every instance
    /// and every observer back in step
    pub muted: bool,
}

impl Sink {
    pub fn new() -> Sink {
        Sink { idx: 0, evals: [0; N_RULES], viol: Vec::new(), muted: false }
    }
    /// Rule `r` was applicable here; `ok` says whether it held.
    #[inline]
    pub fn check(&mut self, r: R, ok: bool, detail: impl FnOnce() -> String) {
        if self.muted {
            return;
        }
        self.evals[r as usize] += 1;
        if !ok {
            self.viol.push(Violation { idx: self.idx, rule: r, detail: detail() });
        }
    }
}

/// Plain image of a ParameterNumberMessage (read through the public accessors).
#[derive(Copy, Clone, Debug, PartialEq, Eq)]
pub struct Pn {
    pub ch: u8,
    pub num: u16,
    pub val: u16,
    pub reg: bool,
    pub b14: bool,
    /// 0 = data entry, 1 = increment, 2 = decrement
    pub dt: u8,
}

/// Plain image of a ControlChange14BitMessage.
#[derive(Copy, Clone, Debug, PartialEq, Eq)]
pub struct C14 {
    pub ch: u8,
    pub msb_cn: u8,
    pub lsb_cn: u8,
    pub val: u16,
}

pub type Out2 = [Option<Pn>; 2];

/// The simulated clock at the start of a call into the library and after it. They differ when the
/// run lets time pass inside calls (every clock read advances the clock); an arrival stamp or a
/// timeout decision taken inside the call lies somewhere in between, so the observers only claim
/// what holds for every reading in the span.
#[derive(Copy, Clone, Debug, PartialEq, Eq)]
pub struct Span {
    pub a: Duration,
    pub b: Duration,
}
impl Span {
    pub fn at(t: Duration) -> Span {
        Span { a: t, b: t }
    }
}
/// Every clock reading of the poll is at/after the deadline of a byte stamped during `fed`.
pub fn surely_late(fed: Span, poll: Span, timeout: Duration) -> bool {
    poll.a.saturating_sub(fed.b) >= timeout
}
/// Some clock reading of the poll may be at/after the deadline.
pub fn maybe_late(fed: Span, poll: Span, timeout: Duration) -> bool {
    poll.b.saturating_sub(fed.a) >= timeout
}

/// Harness-side decoding of a Control Change: (channel, controller number, value).
#[inline]
pub fn cc(b: [u8; 3]) -> Option<(u8, u8, u8)> {
    if b[0] & 0xF0 == 0xB0 {
        Some((b[0] & 0x0F, b[1], b[2]))
    } else {
        None
    }
}
#[inline]
pub fn is_pn_cn(cn: u8) -> bool {
    matches!(cn, 6 | 38 | 96..=101)
}
#[inline]
pub fn is_cc14_cn(cn: u8) -> bool {
    cn < 64
}

// ------------------------------------------------------------------------------------------
// C08: exact reference model of the 14-bit CC scanner
// ------------------------------------------------------------------------------------------
#[derive(Default, Clone)]
pub struct Cc14Model {
    pub last: [Option<(u8, u8)>; 16],
}
impl Cc14Model {
    pub fn feed(&mut self, b: [u8; 3]) -> Option<C14> {
        let (c, n, v) = cc(b)?;
        if n < 32 {
            self.last[c as usize] = Some((n, v));
            None
        } else if n < 64 {
            match self.last[c as usize] {
                Some((m, mv)) if m + 32 == n => Some(C14 { ch: c, msb_cn: m, lsb_cn: n, val: (mv as u16) * 128 + v as u16 }),
                _ => None,
            }
        } else {
            None
        }
    }
}

// ------------------------------------------------------------------------------------------
// C11: exact reference model of the non-polling (N)RPN scanner
// ------------------------------------------------------------------------------------------
#[derive(Default, Copy, Clone)]
pub struct PnCh {
    pub msb: Option<u8>,
    pub lsb: Option<u8>,
    pub reg: bool,
    pub v38: Option<u8>,
}
#[derive(Default, Clone)]
pub struct PnModel {
    pub ch: [PnCh; 16],
}
impl PnModel {
    pub fn feed(&mut self, b: [u8; 3]) -> Option<Pn> {
        let (c, n, v) = cc(b)?;
        let h = &mut self.ch[c as usize];
        match n {
            99 | 101 => {
                h.msb = Some(v);
                h.reg = n == 101;
                h.v38 = None;
                None
            }
            98 | 100 => {
                h.lsb = Some(v);
                h.reg = n == 100;
                h.v38 = None;
                None
            }
            38 => {
                h.v38 = Some(v);
                None
            }
            6 | 96 | 97 => {
                let num = (h.msb? as u16) * 128 + h.lsb? as u16;
                if n == 6 {
                    Some(match h.v38 {
                        Some(l) => Pn { ch: c, num, val: (v as u16) * 128 + l as u16, reg: h.reg, b14: true, dt: 0 },
                        None => Pn { ch: c, num, val: v as u16, reg: h.reg, b14: false, dt: 0 },
                    })
                } else {
                    Some(Pn { ch: c, num, val: v as u16, reg: h.reg, b14: false, dt: if n == 96 { 1 } else { 2 } })
                }
            }
            _ => None,
        }
    }
}

// ------------------------------------------------------------------------------------------
// Polling scanner: history observer for C13 / C14 and sentence recogniser for C12
// ------------------------------------------------------------------------------------------

/// The most recent CC 6 instance on a channel.
#[derive(Copy, Clone, Debug)]
pub struct I6 {
    pub val: u8,
    pub at: Span,
    /// number complete at receipt
    pub complete: bool,
    pub rep7: bool,
    pub in14: bool,
}
/// The most recent CC 38 instance on a channel.
#[derive(Copy, Clone, Debug)]
pub struct I38 {
    pub val: u8,
    pub at: Span,
    /// number complete at receipt (otherwise no timeout is running for it)
    pub complete: bool,
    pub used14: bool,
    pub dropped: bool,
}

/// Recogniser state (C12). Idle = outside any documented sentence: silent, never alarmed.
#[derive(Copy, Clone, Debug, PartialEq, Eq)]
pub enum RS {
    Idle,
    S0 { fresh: bool },
    SM { m: u8, t0: Span },
    SL { l: u8, t0: Span },
    S14 { m: u8 },
}
impl RS {
    pub fn class(&self) -> usize {
        match self {
            RS::Idle => 0,
            RS::S0 { fresh: true } => 1,
            RS::S0 { fresh: false } => 2,
            RS::SM { .. } => 3,
            RS::SL { .. } => 4,
            RS::S14 { .. } => 5,
        }
    }
}
pub const RS_CLASSES: [&str; 6] = ["idle", "S0-fresh", "S0", "SM(lone MSB)", "SL(LSB first)", "S14(complete)"];

#[derive(Copy, Clone, Debug)]
pub struct ChanHist {
    pub nmsb: Option<u8>,
    pub nlsb: Option<u8>,
    pub reg: bool,
    pub last6: Option<I6>,
    pub last38: Option<I38>,
    pub last_contrib_is_38: bool,
    // recogniser
    pub st: RS,
    pub sel: Option<(bool, bool, u8)>,
    pub rnum: (u8, u8),
    pub rreg: bool,
}
impl Default for ChanHist {
    fn default() -> Self {
        ChanHist { nmsb: None, nlsb: None, reg: false, last6: None, last38: None, last_contrib_is_38: false, st: RS::Idle, sel: None, rnum: (0, 0), rreg: false }
    }
}
impl ChanHist {
    pub fn number_complete(&self) -> bool {
        self.nmsb.is_some() && self.nlsb.is_some()
    }
    pub fn pending_msb(&self) -> Option<I6> {
        match self.last6 {
            Some(p) if p.complete && !p.rep7 && !p.in14 => Some(p),
            _ => None,
        }
    }
    /// An unpaired LSB whose timeout is (possibly) running: last contributing message was a CC 38
    /// that has not been used in a 14-bit value and has not been dropped by a late poll.
    pub fn unpaired_lsb(&self) -> Option<I38> {
        if !self.last_contrib_is_38 {
            return None;
        }
        match self.last38 {
            Some(q) if q.complete && !q.used14 && !q.dropped => Some(q),
            _ => None,
        }
    }
    pub fn in_flight(&self) -> bool {
        self.nmsb.is_some() || self.nlsb.is_some()
    }
}

/// What the poll observer reports back to the executor for probes.
#[derive(Copy, Clone, Debug, Default)]
pub struct PollInfo {
    /// the deadline of the pending byte fell inside the call (time passed during it)
    pub straddle: bool,
    /// 0 = pending MSB, 1 = unpaired LSB, 2 = nothing
    pub what: usize,
    /// 0 = early, 1 = exactly at deadline, 2 = late (only meaningful for what < 2)
    pub when: usize,
    pub rec_class: usize,
    pub rec_late: bool,
}

#[derive(Clone)]
pub struct PollObs {
    pub timeout: Duration,
    pub ch: [ChanHist; 16],
}

impl PollObs {
    pub fn new(timeout: Duration) -> Self {
        PollObs { timeout, ch: [ChanHist::default(); 16] }
    }
    pub fn reset(&mut self) {
        self.ch = [ChanHist::default(); 16];
    }
    fn rmsg(h: &ChanHist, c: u8, val: u16, b14: bool, dt: u8) -> Pn {
        Pn { ch: c, num: (h.rnum.0 as u16) * 128 + h.rnum.1 as u16, val, reg: h.rreg, b14, dt }
    }

    /// Observes one `feed` of a *contributing* Control Change (cn in {6,38,96..101}) and its
    /// result. Returns the recogniser class before the event (for probes).
    pub fn on_feed(&mut self, c: u8, cn: u8, cv: u8, out: Out2, now: Span, s: &mut Sink) -> usize {
        let h = &mut self.ch[c as usize];
        let class_before = h.st.class();
        // ---- C12: recogniser expectation
        let exp: Option<Out2> = {
            let m7 = |h: &ChanHist, m: u8| Self::rmsg(h, c, m as u16, false, 0);
            let m14 = |h: &ChanHist, m: u8, l: u8| Self::rmsg(h, c, (m as u16) * 128 + l as u16, true, 0);
            match cn {
                98..=101 => {
                    let reg = cn >= 100;
                    let is_msb = cn == 99 || cn == 101;
                    let e = match h.st {
                        RS::SM { m, .. } => Some([Some(m7(h, m)), None]),
                        RS::Idle => None,
                        _ => Some([None, None]),
                    };
                    match h.sel {
                        Some((r0, m0, v0)) if r0 == reg && m0 != is_msb => {
                            h.rnum = if is_msb { (cv, v0) } else { (v0, cv) };
                            h.rreg = reg;
                            h.st = RS::S0 { fresh: true };
                        }
                        _ => h.st = RS::Idle,
                    }
                    h.sel = Some((reg, is_msb, cv));
                    e
                }
                6 => {
                    h.sel = None;
                    match h.st {
                        RS::Idle => None,
                        RS::S0 { .. } | RS::S14 { .. } => {
                            h.st = RS::SM { m: cv, t0: now };
                            Some([None, None])
                        }
                        RS::SM { m, .. } => {
                            let e = Some([Some(m7(h, m)), None]);
                            h.st = RS::SM { m: cv, t0: now };
                            e
                        }
                        RS::SL { l, .. } => {
                            let e = Some([Some(m14(h, cv, l)), None]);
                            h.st = RS::S14 { m: cv };
                            e
                        }
                    }
                }
                38 => {
                    h.sel = None;
                    match h.st {
                        RS::Idle => None,
                        RS::S0 { fresh: true } => {
                            h.st = RS::SL { l: cv, t0: now };
                            Some([None, None])
                        }
                        RS::S0 { fresh: false } | RS::SL { .. } => {
                            h.st = RS::Idle;
                            None
                        }
                        RS::SM { m, .. } | RS::S14 { m } => {
                            let e = Some([Some(m14(h, m, cv)), None]);
                            h.st = RS::S14 { m };
                            e
                        }
                    }
                }
                _ => {
                    h.sel = None;
                    let dt = if cn == 96 { 1 } else { 2 };
                    let id = Self::rmsg(h, c, cv as u16, false, dt);
                    match h.st {
                        RS::Idle => None,
                        RS::S0 { .. } | RS::S14 { .. } => {
                            h.st = RS::S0 { fresh: false };
                            Some([Some(id), None])
                        }
                        RS::SM { m, .. } => {
                            let e = Some([Some(m7(h, m)), Some(id)]);
                            h.st = RS::S0 { fresh: false };
                            e
                        }
                        RS::SL { .. } => {
                            h.st = RS::Idle;
                            None
                        }
                    }
                }
            }
        };
        if let Some(e) = exp {
            s.check(R::C12_feed, e == out, || format!("ch {} CC {} {}: intended {:?}, got {:?}", c, cn, cv, e, out));
        }

        // ---- C14 invariants (and the feed side of C13.T6)
        let num_before = (h.nmsb, h.nlsb, h.reg);
        let mut prev6 = h.last6;
        let mut cur6 = if cn == 6 { Some(I6 { val: cv, at: now, complete: h.number_complete(), rep7: false, in14: false }) } else { None };
        if cn == 38 {
            h.last38 = Some(I38 { val: cv, at: now, complete: h.number_complete(), used14: false, dropped: false });
        }
        let pending_before = h.pending_msb().is_some();
        for r in out.iter().flatten() {
            s.check(R::C14_I1, r.ch == c, || format!("feed on ch {} returned a message for ch {}", c, r.ch));
            match num_before {
                (Some(ms), Some(ls), reg) => {
                    s.check(R::C14_I2, r.num == (ms as u16) * 128 + ls as u16 && r.reg == reg, || format!("ch {}: reported number {} registered {} but latest number bytes before the call are MSB {} LSB {} registered {}", c, r.num, r.reg, ms, ls, reg));
                }
                _ => s.check(R::C14_I2b, false, || format!("ch {}: {:?} reported while a number half is missing ({:?})", c, r, num_before)),
            }
            if r.dt != 0 {
                let ok = ((r.dt == 1 && cn == 96) || (r.dt == 2 && cn == 97)) && r.val == cv as u16 && !r.b14;
                s.check(R::C14_I3, ok, || format!("ch {}: inc/dec {:?} not justified by current message CC {} {}", c, r, cn, cv));
            } else if !r.b14 {
                match prev6.as_mut() {
                    Some(p) if p.val as u16 == r.val => {
                        s.check(R::C14_I3, true, String::new);
                        let fresh = !p.rep7 && !p.in14;
                        s.check(R::C14_I4, fresh, || format!("ch {}: CC6 value {} reported as 7-bit again (already 7-bit: {}, already in 14-bit: {})", c, p.val, p.rep7, p.in14));
                        p.rep7 = true;
                    }
                    _ => s.check(R::C14_I3, false, || format!("ch {}: 7-bit {:?} is not the most recent CC6 value before the call ({:?})", c, r, prev6)),
                }
            } else {
                let a = if cn == 6 { cur6.as_mut() } else { prev6.as_mut() };
                let bq = h.last38.as_mut();
                match (a, bq) {
                    (Some(a), Some(q)) if r.val == (a.val as u16) * 128 + q.val as u16 => {
                        s.check(R::C14_I3, true, String::new);
                        a.in14 = true;
                        s.check(R::C13_T6, !q.dropped, || format!("ch {}: 14-bit {:?} uses CC38 value {} that a late poll had already dropped", c, r, q.val));
                        q.used14 = true;
                    }
                    (a, q) => {
                        let (a, q) = (a.map(|x| x.val), q.map(|x| x.val));
                        s.check(R::C14_I3, false, || format!("ch {}: 14-bit {:?} is not 128*{:?}+{:?} (most recent CC6/CC38)", c, r, a, q))
                    }
                }
            }
        }
        if out[1].is_some() {
            let ok = matches!(out[0], Some(a) if a.dt == 0 && !a.b14) && matches!(out[1], Some(b) if b.dt != 0) && (cn == 96 || cn == 97);
            s.check(R::C14_I6, ok, || format!("ch {}: two-slot result {:?} for CC {}", c, out, cn));
        } else {
            s.evals[R::C14_I6 as usize] += 1;
        }
        if pending_before {
            let p = prev6.unwrap();
            s.check(R::C14_I5, p.rep7 || p.in14, || format!("ch {}: pending CC6 value {} not reported by the next contributing message CC {} {}", c, p.val, cn, cv));
        }
        h.last6 = if cn == 6 { cur6.take() } else { prev6 };
        match cn {
            99 | 101 => {
                h.nmsb = Some(cv);
                h.reg = cn == 101;
            }
            98 | 100 => {
                h.nlsb = Some(cv);
                h.reg = cn == 100;
            }
            _ => {}
        }
        h.last_contrib_is_38 = cn == 38 && !h.last38.map(|q| q.used14).unwrap_or(true);
        class_before
    }

    /// Observes one `poll(c)`; `unchanged` = scanner compared equal to its pre-call copy. `now` is
    /// the clock span of the call.
    pub fn on_poll(&mut self, c: u8, out: Option<Pn>, now: Span, unchanged: bool, s: &mut Sink) -> PollInfo {
        let timeout = self.timeout;
        let h = &mut self.ch[c as usize];
        let mut info = PollInfo { what: 2, when: 0, rec_class: h.st.class(), rec_late: false, straddle: false };
        // ---- C12
        let exp: Option<Option<Pn>> = match h.st {
            RS::Idle => None,
            RS::SM { m, t0 } => {
                let e = Self::rmsg(h, c, m as u16, false, 0);
                if surely_late(t0, now, timeout) {
                    info.rec_late = true;
                    h.st = RS::S0 { fresh: false };
                    Some(Some(e))
                } else if maybe_late(t0, now, timeout) {
                    // the deadline passed during the call: either answer is right, but nothing else
                    if out == Some(e) {
                        h.st = RS::S0 { fresh: false };
                    }
                    Some(out.filter(|o| *o == e))
                } else {
                    Some(None)
                }
            }
            RS::SL { t0, .. } => {
                if maybe_late(t0, now, timeout) {
                    info.rec_late = surely_late(t0, now, timeout);
                    h.st = RS::Idle;
                }
                Some(None)
            }
            _ => Some(None),
        };
        if let Some(e) = exp {
            s.check(R::C12_poll, e == out, || format!("poll({}): intended {:?}, got {:?}", c, e, out));
        }
        // ---- C13
        let pend = h.pending_msb();
        let late_sure = matches!(pend, Some(p) if surely_late(p.at, now, timeout));
        let late_maybe = matches!(pend, Some(p) if maybe_late(p.at, now, timeout));
        if let Some(p) = pend {
            info.what = 0;
            let el = now.a.saturating_sub(p.at.b);
            info.when = if el < timeout { 0 } else if el == timeout { 1 } else { 2 };
            info.straddle = late_maybe && !late_sure;
        }
        match out {
            Some(r) => {
                if !late_maybe {
                    s.check(R::C13_T1, false, || match pend {
                        Some(p) => format!("poll({}) returned {:?} only {:?} after the MSB was fed (timeout {:?})", c, r, now.b.saturating_sub(p.at.a), timeout),
                        None => format!("poll({}) returned {:?} although no MSB is pending", c, r),
                    });
                    // C14 view of an unjustified poll report
                    match (h.nmsb, h.nlsb) {
                        (Some(_), Some(_)) => {
                            let again = matches!(h.last6, Some(p) if p.val as u16 == r.val && (p.rep7 || p.in14));
                            if again {
                                s.check(R::C14_I4, false, || format!("poll({}) reported CC6 value {} again", c, r.val));
                            }
                        }
                        _ => s.check(R::C14_I2b, false, || format!("poll({}) reported {:?} while a number half is missing", c, r)),
                    }
                } else {
                    let p = h.last6.as_mut().unwrap();
                    let num_ok = matches!((h.nmsb, h.nlsb), (Some(ms), Some(ls)) if r.num == (ms as u16) * 128 + ls as u16) && r.reg == h.reg;
                    let ok = r.ch == c && num_ok && r.dt == 0 && !r.b14 && r.val == p.val as u16;
                    let pv = p.val;
                    s.check(R::C13_T1, ok, || format!("poll({}) returned {:?}, want 7-bit data entry value {} with the current number", c, r, pv));
                    // the same result, seen through C14's rules
                    s.check(R::C14_I1, r.ch == c, || format!("poll({}) returned a message for ch {}", c, r.ch));
                    s.check(R::C14_I2, num_ok, || format!("poll({}): number/kind {:?} differs from the latest number bytes", c, r));
                    s.check(R::C14_I3, r.dt == 0 && !r.b14 && r.val == pv as u16, || format!("poll({}): {:?} is not the pending CC6 value {}", c, r, pv));
                    p.rep7 = true;
                }
            }
            None => {
                if late_sure {
                    s.check(R::C14_I5, false, || format!("poll({}) at/after the timeout did not report the pending CC6 value {}", c, pend.unwrap().val));
                }
            }
        }
        if late_sure {
            s.check(R::C13_T2, out.is_some(), || format!("poll({}) returned nothing although an MSB (value {}) has been pending for {:?} >= timeout {:?}", c, pend.unwrap().val, now.a.saturating_sub(pend.unwrap().at.b), timeout));
        }
        let q = h.unpaired_lsb();
        if pend.is_none() {
            if let Some(q) = q {
                info.what = 1;
                let el = now.a.saturating_sub(q.at.b);
                info.when = if el < timeout { 0 } else if el == timeout { 1 } else { 2 };
                info.straddle = maybe_late(q.at, now, timeout) && !surely_late(q.at, now, timeout);
            }
        }
        let q_early = matches!(q, Some(q) if !maybe_late(q.at, now, timeout));
        if (pend.is_some() && !late_maybe) || (pend.is_none() && q_early) {
            s.check(R::C13_T4, out.is_none() && unchanged, || format!("early poll({}) had an effect: returned {:?}, state unchanged: {}", c, out, unchanged));
        }
        if let Some(q) = h.last38.as_mut() {
            if !q.used14 && surely_late(q.at, now, timeout) {
                q.dropped = true;
            }
        }
        info
    }
}
