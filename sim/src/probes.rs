//! Reach counters. All are sums over runs, so aggregation is order-independent and the totals
//! of a batch depend on (seed, run range) only.

use crate::json::J;
use crate::rules::*;

pub const C08_STATES: [&str; 2] = ["no MSB stored", "MSB stored"];
pub const C08_EVENTS: [&str; 7] = ["CC MSB (0-31)", "CC LSB matching", "CC LSB not matching", "CC 64-127", "non-CC channel msg", "system msg", "reset"];
pub const C11_HALVES: [&str; 4] = ["no half", "number MSB only", "number LSB only", "number complete"];
pub const C11_EVENTS: [&str; 8] = ["X (99/101)", "Y (98/100)", "M (6)", "L (38)", "I (96)", "D (97)", "non-contributing", "reset"];
pub const REC_EVENTS: [&str; 9] = ["X", "Y", "M", "L", "I/D", "poll (no deadline or early)", "poll at/after deadline", "non-contributing", "reset"];
pub const POLL_WHAT: [&str; 3] = ["pending MSB", "unpaired LSB", "nothing pending"];
pub const POLL_WHEN: [&str; 3] = ["early", "exactly at deadline", "late"];
pub const TIMEOUT_CLASS: [&str; 3] = ["timeout 0", "finite timeout", "effectively infinite timeout"];

macro_rules! probes_struct {
    (scalars: { $($s:ident),* $(,)? } arrays: { $($a:ident : $n:expr),* $(,)? }) => {
        #[derive(Clone)]
        pub struct Probes {
            $( pub $s: u64, )*
            $( pub $a: [u64; $n], )*
            pub sim_time_ns: u128,
        }
        impl Probes {
            pub fn new() -> Probes {
                Probes { $( $s: 0, )* $( $a: [0; $n], )* sim_time_ns: 0 }
            }
            pub fn add(&mut self, o: &Probes) {
                $( self.$s += o.$s; )*
                $( for i in 0..$n { self.$a[i] += o.$a[i]; } )*
                self.sim_time_ns = self.sim_time_ns.saturating_add(o.sim_time_ns);
            }
            /// Canonical dump, used by the determinism self-test.
            pub fn fingerprint(&self) -> u64 {
                let mut h = crate::trace::Fnv::new();
                $( h.u64(self.$s); )*
                $( for i in 0..$n { h.u64(self.$a[i]); } )*
                h.u128(self.sim_time_ns);
                h.0
            }
        }
    };
}

probes_struct! {
    scalars: {
        runs, steps, deliveries, polls, resets, advances, forks, snapshots, restores, reset_storm_resets, soak_loops, soak_steps, enc_cc14, enc_pn, bad_argument_ctor,
        ingest_rejected, ingest_mismatch, factory_rebuild_mismatch, direct_clock_reads, accessor_mismatch, telemetry_mismatch, garbled_parses, infinite_jumps, clock_reads,
        reports_cc14, reports_pn, reports_polling_feed, reports_polling_poll,
        rt_c07_checked, rt_c07_skipped, rt_c10_checked, rt_c10_running_checked, rt_c10_skipped,
        rt_c12_checked, rt_c12_abandoned, rt_c12_unfinished,
        t5_probes, fresh_twin_steps, fork_lockstep_steps, telemetry_calls,
        multi_channel_runs, fault_free_runs, polls_straddling_deadline, calls_during_which_time_passed, thread_hop_windows, calls_on_another_thread, scanner_debug_dumps, misplaced_windows, calls_on_a_misplaced_copy, stdio_writes_inside_api_regions, unwinding_windows, calls_from_an_unwinding_destructor, liar_feeds, events_not_judged_after_a_liar, resets_judged_after_a_liar, bulk_events, bulk_fast_rounds, bulk_fast_feeds, bulk_rounds_max_2pow16, bulk_rounds_max_2pow20, bulk_rounds_max_2pow24, env_reads, panics_on_main_answered_as_nothing, aborted_feeds, aborted_feed_calls_unwound, aborted_feed_calls_completed_and_rolled_back, message_debug_hash_checks, message_hash_mismatch,
    }
    arrays: {
        rule_evals: N_RULES,
        c08_cells: 14,
        c11_cells: 64,
        rec_cells: 54,
        poll_timing: 27,
        pair_matrix: 256,
        status_inflight: 128,
        cn_inflight_cc14: 128,
        cn_inflight_pn: 128,
        reset_cells: 6,
        witness: 16,
        api_calls: 40,
        faults_fired: 34,
        faults_in_flight: 34,
        repr_used: 4,
        channels_used: 16,
        timeout_class_runs: 3,
        env_mode_runs: 4,
        stdio_mode_runs: 2,
    }
}

fn cells_json(cells: &[u64], names: impl Fn(usize) -> Option<String>) -> J {
    let mut hit = 0;
    let mut total = 0;
    let mut unhit = Vec::new();
    for (i, &c) in cells.iter().enumerate() {
        if let Some(n) = names(i) {
            total += 1;
            if c > 0 {
                hit += 1;
            } else {
                unhit.push(J::Str(n));
            }
        }
    }
    J::obj().set("hit", J::us(hit)).set("total", J::us(total)).set("unhit", J::Arr(unhit))
}

impl Probes {
    pub fn c08_cells_json(&self) -> J {
        cells_json(&self.c08_cells, |i| {
            let (s, e) = (i / 7, i % 7);
            if s == 0 && e == 1 {
                return None; // no MSB stored: an LSB cannot match
            }
            Some(format!("{} x {}", C08_STATES[s], C08_EVENTS[e]))
        })
    }
    pub fn c11_cells_json(&self) -> J {
        cells_json(&self.c11_cells, |i| {
            let (h, v, e) = (i / 16, (i / 8) % 2, i % 8);
            Some(format!("{} / v38 {} x {}", C11_HALVES[h], if v == 1 { "set" } else { "unset" }, C11_EVENTS[e]))
        })
    }
    pub fn rec_cells_json(&self) -> J {
        cells_json(&self.rec_cells, |i| {
            let (c, e) = (i / 9, i % 9);
            // a deadline exists only in SM and SL
            if e == 6 && !(c == 3 || c == 4) {
                return None;
            }
            Some(format!("{} x {}", crate::oracles::RS_CLASSES[c], REC_EVENTS[e]))
        })
    }
    pub fn poll_timing_json(&self) -> J {
        let mut o = J::obj();
        for w in 0..3 {
            for t in 0..3 {
                for k in 0..3 {
                    if w == 2 && t > 0 {
                        continue;
                    }
                    let name = if w == 2 { format!("{} / {}", POLL_WHAT[w], TIMEOUT_CLASS[k]) } else { format!("{} / {} / {}", POLL_WHAT[w], POLL_WHEN[t], TIMEOUT_CLASS[k]) };
                    o.put(&name, J::u(self.poll_timing[w * 9 + t * 3 + k]));
                }
            }
        }
        o
    }
    pub fn pair_matrix_cells(&self) -> (usize, usize) {
        let mut hit = 0;
        for a in 0..16 {
            for b in 0..16 {
                if a != b && self.pair_matrix[a * 16 + b] > 0 {
                    hit += 1;
                }
            }
        }
        (hit, 240)
    }
    pub fn count_nonzero(xs: &[u64]) -> usize {
        xs.iter().filter(|&&x| x > 0).count()
    }
}
