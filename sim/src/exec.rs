//! Executes a decision trace against the REAL scanners, encoders and message types of
//! helgoboss-midi, drives the shadow instances (solo, filtered twin, fresh twin, fork copies) and
//! runs every history observer. All calls into the crate are API regions (apimon).

use crate::apimon::{self, api, api_expect_panic, api_mode, api_soft, Mode, Panicked, L};
use crate::oracles::*;
use crate::probes::Probes;
use crate::rules::*;
use crate::trace::*;
use helgoboss_midi::verif_hooks as clk;
use helgoboss_midi::*;
use std::convert::TryFrom;
use std::fmt::Write as _;
use std::time::Duration;

pub const PROPS: [&str; 11] = ["C07", "C08", "C10", "C11", "C12", "C13", "C14", "C15", "C16", "C17", "C18"];
pub fn prop_index(p: &str) -> Option<usize> {
    PROPS.iter().position(|x| *x == p)
}

// ---- third-party ShortMessage implementors (the crate's trait is the seam) -------------------
struct Foreign {
    b: [u8; 3],
    _extra: u64,
}
impl ShortMessage for Foreign {
    fn status_byte(&self) -> u8 {
        self.b[0]
    }
    fn data_byte_1(&self) -> U7 {
        U7::new(self.b[1])
    }
    fn data_byte_2(&self) -> U7 {
        U7::new(self.b[2])
    }
}
/// Three bytes, alignment 1 - the size and alignment of `RawShortMessage` - but the bytes are kept
/// in another order and the status byte is assembled in the getter: a type that must be talked to
/// through the trait, never through its memory.
#[repr(C)]
struct ForeignTb {
    value: u8,
    number: u8,
    /// high nibble: channel (or system message number), low nibble: message kind
    kind_swapped: u8,
}
impl ForeignTb {
    fn new(b: [u8; 3]) -> ForeignTb {
        ForeignTb { value: b[2], number: b[1], kind_swapped: b[0].rotate_left(4) }
    }
}
impl ShortMessage for ForeignTb {
    fn status_byte(&self) -> u8 {
        self.kind_swapped.rotate_left(4)
    }
    fn data_byte_1(&self) -> U7 {
        U7::new(self.number)
    }
    fn data_byte_2(&self) -> U7 {
        U7::new(self.value)
    }
    fn to_bytes(&self) -> (u8, U7, U7) {
        (self.kind_swapped.rotate_left(4), U7::new(self.number), U7::new(self.value))
    }
}

/// A message object over a corrupt device buffer: one of its getters panics (as `U7::new` does
/// on a byte above 127). The unwinding is silent (`resume_unwind` does not run the panic hook).
struct Panicky {
    b: [u8; 3],
    which: u8,
}
struct Aborted;
impl Panicky {
    fn get(&self, i: usize) -> u8 {
        if self.which as usize == i {
            std::panic::resume_unwind(Box::new(Aborted));
        }
        self.b[i]
    }
}
impl ShortMessage for Panicky {
    fn status_byte(&self) -> u8 {
        self.get(0)
    }
    fn data_byte_1(&self) -> U7 {
        U7::new(self.get(1))
    }
    fn data_byte_2(&self) -> U7 {
        U7::new(self.get(2))
    }
}

/// A message object that contradicts itself: the byte getters answer `raw`, `to_structured()`
/// answers the structured form of `st` (a translating wrapper, a stale cache). Not a valid short
/// message; what a scanner makes of it is nobody's business - except that `reset()` afterwards
/// still has to leave a scanner that is as new.
struct Liar {
    raw: [u8; 3],
    st: StructuredShortMessage,
}
impl ShortMessage for Liar {
    fn status_byte(&self) -> u8 {
        self.raw[0]
    }
    fn data_byte_1(&self) -> U7 {
        U7::new(self.raw[1])
    }
    fn data_byte_2(&self) -> U7 {
        U7::new(self.raw[2])
    }
    fn to_structured(&self) -> StructuredShortMessage {
        self.st
    }
}

/// An impure message object: every byte getter answers `a` on its first call and `b` afterwards.
struct Fickle {
    a: [u8; 3],
    b: [u8; 3],
    calls: [std::cell::Cell<u8>; 3],
}
impl Fickle {
    fn get(&self, i: usize) -> u8 {
        let n = self.calls[i].get();
        self.calls[i].set(n.saturating_add(1));
        if n == 0 {
            self.a[i]
        } else {
            self.b[i]
        }
    }
}
impl ShortMessage for Fickle {
    fn status_byte(&self) -> u8 {
        self.get(0)
    }
    fn data_byte_1(&self) -> U7 {
        U7::new(self.get(1))
    }
    fn data_byte_2(&self) -> U7 {
        U7::new(self.get(2))
    }
}

macro_rules! with_repr {
    ($raw:expr, $b:expr, $repr:expr, |$m:ident| $body:expr) => {
        match $repr {
            REPR_RAW => {
                let $m = &$raw;
                $body
            }
            REPR_STRUCTURED => {
                let st = $raw.to_structured();
                let $m = &st;
                $body
            }
            REPR_FOREIGN => {
                let f = Foreign { b: $b, _extra: 7 };
                let $m = &f;
                $body
            }
            _ => {
                let f = ForeignTb::new($b);
                let $m = &f;
                $body
            }
        }
    };
}

#[repr(C, align(8))]
struct Placed<const K: usize, T> {
    pad: [u8; K],
    v: T,
}

/// Makes the call on a copy of `*v` that lives at an address congruent to `k` modulo 8 (for types
/// of alignment 1; a stricter alignment rounds the offset up) and copies the result back: where a
/// `Copy` value happens to live - a field behind a few flag bytes in the host's struct - is the
/// host's business and must not matter.
fn at_offset<T: Copy, R>(k: u8, v: &mut T, f: impl FnOnce(&mut T) -> R) -> R {
    macro_rules! go {
        ($k:literal) => {{
            let mut p = Placed::<$k, T> { pad: [0xA5; $k], v: *v };
            let r = f(&mut p.v);
            *v = p.v;
            std::hint::black_box(&p.pad);
            r
        }};
    }
    match k % 8 {
        1 => go!(1),
        2 => go!(2),
        3 => go!(3),
        4 => go!(4),
        5 => go!(5),
        6 => go!(6),
        7 => go!(7),
        _ => f(v),
    }
}

#[derive(Copy, Clone, PartialEq)]
pub struct Scn {
    pub cc: ControlChange14BitMessageScanner,
    pub pn: ParameterNumberMessageScanner,
    pub po: PollingParameterNumberMessageScanner,
}

type Res3 = (Option<ControlChange14BitMessage>, Option<ParameterNumberMessage>, [Option<ParameterNumberMessage>; 2]);

fn new_scn(timeout: Duration) -> Result<Scn, Panicked> {
    api(L::scanner_new, || Scn { cc: ControlChange14BitMessageScanner::new(), pn: ParameterNumberMessageScanner::new(), po: PollingParameterNumberMessageScanner::new(timeout) })
}

/// The other creation path: `Default::default()` ("since creation" covers it just as well). The
/// polling scanner's default has a zero timeout, so it is only used when the run's timeout is zero.
fn default_scn(timeout: Duration) -> Result<Scn, Panicked> {
    api(L::scanner_default, || Scn {
        cc: Default::default(),
        pn: Default::default(),
        po: if timeout.is_zero() { Default::default() } else { PollingParameterNumberMessageScanner::new(timeout) },
    })
}

fn feed_scn(s: &mut Scn, raw: &RawShortMessage, b: [u8; 3], repr: u8) -> Result<Res3, Panicked> {
    feed_scn_on(false, s, raw, b, repr)
}

/// `hop`: every one of the three calls runs on another OS thread (see `apimon::api_hop`).
fn feed_scn_on(hop: bool, s: &mut Scn, raw: &RawShortMessage, b: [u8; 3], repr: u8) -> Result<Res3, Panicked> {
    let _ = hop;
    let r_cc = api_soft(L::cc14_feed, None, || with_repr!(*raw, b, repr, |m| s.cc.feed(m)))?;
    let r_pn = api_soft(L::pn_feed, None, || with_repr!(*raw, b, repr, |m| s.pn.feed(m)))?;
    let r_po = api_soft(L::polling_feed, [None, None], || with_repr!(*raw, b, repr, |m| s.po.feed(m)))?;
    Ok((r_cc, r_pn, r_po))
}

/// The feed of the main instance. A panic inside one of the three calls is C18's business, but the
/// other properties are owed an answer too: the call "returned nothing", which is what the
/// caller of a caught panic is left with, and every observer judges that. The run goes on (the
/// scanner is still a value the host holds).
fn feed_main(hop: Mode, place: u8, s: &mut Scn, raw: &RawShortMessage, b: [u8; 3], repr: u8) -> (Res3, Option<L>) {
    let mut pan = None;
    let r_cc = match api_mode(hop, L::cc14_feed, || at_offset(place, &mut s.cc, |x| with_repr!(*raw, b, repr, |m| x.feed(m)))) {
        Ok(r) => r,
        Err(Panicked(l)) => {
            pan = Some(l);
            None
        }
    };
    let r_pn = match api_mode(hop, L::pn_feed, || at_offset(place, &mut s.pn, |x| with_repr!(*raw, b, repr, |m| x.feed(m)))) {
        Ok(r) => r,
        Err(Panicked(l)) => {
            pan = Some(l);
            None
        }
    };
    let r_po = match api_mode(hop, L::polling_feed, || at_offset(place, &mut s.po, |x| with_repr!(*raw, b, repr, |m| x.feed(m)))) {
        Ok(r) => r,
        Err(Panicked(l)) => {
            pan = Some(l);
            [None, None]
        }
    };
    ((r_cc, r_pn, r_po), pan)
}

fn pn_img(m: &ParameterNumberMessage) -> Pn {
    Pn {
        ch: m.channel().get(),
        num: m.number().get(),
        val: m.value().get(),
        reg: m.is_registered(),
        b14: m.is_14_bit(),
        dt: match m.data_type() {
            DataType::DataEntry => 0,
            DataType::DataIncrement => 1,
            DataType::DataDecrement => 2,
        },
    }
}
fn c14_img(m: &ControlChange14BitMessage) -> C14 {
    C14 { ch: m.channel().get(), msb_cn: m.msb_controller_number().get(), lsb_cn: m.lsb_controller_number().get(), val: m.value().get() }
}

struct Buf {
    b: [u8; 64],
    n: usize,
}
impl std::fmt::Write for Buf {
    fn write_str(&mut self, s: &str) -> std::fmt::Result {
        let by = s.as_bytes();
        if self.n + by.len() > 64 {
            return Err(std::fmt::Error);
        }
        self.b[self.n..self.n + by.len()].copy_from_slice(by);
        self.n += by.len();
        Ok(())
    }
}
/// The host's telemetry formatter: Display of each field into a stack buffer, FromStr back.
/// Exists to put formatting and parsing under the allocation/panic monitor.
fn telemetry(ch: Channel, a: U14, b: U14, cn: Option<ControllerNumber>) -> Result<bool, Panicked> {
    api(L::telemetry_display_fromstr, || {
        let mut buf = Buf { b: [0; 64], n: 0 };
        // a failure of the harness's own plumbing (buffer, utf-8, parse) is a mismatch to count, not
        // a panic to blame on the crate
        let mut ok = write!(buf, "{}", ch).is_ok();
        let n1 = buf.n;
        ok &= write!(buf, "{}", a).is_ok();
        let n2 = buf.n;
        ok &= write!(buf, "{}", b).is_ok();
        let n3 = buf.n;
        if let Some(k) = cn {
            ok &= write!(buf, "{}", k).is_ok();
        }
        let Ok(s) = std::str::from_utf8(&buf.b[..buf.n]) else { return false };
        let c = s[..n1].parse::<Channel>();
        let x = s[n1..n2].parse::<U14>();
        let y = s[n2..n3].parse::<U14>();
        let kk = match cn {
            Some(k) => s[n3..].parse::<ControllerNumber>() == Ok(k),
            None => true,
        };
        ok && c == Ok(ch) && x == Ok(a) && y == Ok(b) && kk
    })
}

/// Text faults: the host also parses number fields that did not come out of `Display` - typed by a
/// user, or garbled in transit: multi-byte characters at every offset, full-width and Arabic-Indic
/// digits, signs, blanks, long zero padding. The parsers are fallible by contract, so whatever they
/// answer is fine; they only must not panic or allocate (C18). Deterministic in (a, b).
fn garbled_parse(a: u16, b: u16) -> Result<u32, Panicked> {
    let mut buf = Buf { b: [0; 64], n: 0 };
    let k = (a as usize).wrapping_add(b as usize);
    let pieces: [&str; 12] = ["\u{e9}", "\u{20ac}", "\u{ff11}\u{ff12}\u{ff17}", "\u{661}\u{662}\u{663}", "+", "-", " ", "0000000000000000", "\u{1f3b9}", "\u{e9}\u{e9}", "00000", "127"];
    let zeros = k % 7;
    for _ in 0..zeros {
        let _ = buf.write_str("0");
    }
    let _ = write!(buf, "{}", a % 200);
    let _ = buf.write_str(pieces[k % 12]);
    let _ = write!(buf, "{}", b);
    if k % 3 == 0 {
        let _ = buf.write_str(pieces[(k / 3) % 12]);
        let _ = write!(buf, "{}", a);
    }
    let Ok(s) = std::str::from_utf8(&buf.b[..buf.n]) else { return Ok(0) };
    api(L::telemetry_display_fromstr, || {
        let mut oks = 0u32;
        // every suffix that starts on a character boundary, so that the multi-byte characters land
        // on every byte offset relative to the end of the string
        for (i, _) in s.char_indices() {
            let t = &s[i..];
            oks += t.parse::<U7>().is_ok() as u32;
            oks += t.parse::<U14>().is_ok() as u32;
            oks += t.parse::<U4>().is_ok() as u32;
            oks += t.parse::<Channel>().is_ok() as u32;
            oks += t.parse::<KeyNumber>().is_ok() as u32;
            oks += t.parse::<ControllerNumber>().is_ok() as u32;
        }
        oks
    })
}

// ---- encoded groups ---------------------------------------------------------------------------
#[derive(Clone)]
enum GroupMsg {
    Cc14(ControlChange14BitMessage),
    Pn(ParameterNumberMessage),
}
#[derive(Clone)]
struct Group {
    msg: GroupMsg,
    parts: Vec<[u8; 3]>,
    ch: u8,
    num: u16,
    reg: bool,
    kind: u8,
    order: u8,
    /// what the talker asked the constructor for, as a plain image (independent of the crate)
    want_pn: Option<Pn>,
}

#[derive(Copy, Clone, PartialEq, Debug)]
struct Chain {
    ch: u8,
    num: u16,
    reg: bool,
    fourteen: bool,
}
#[derive(Copy, Clone, PartialEq, Debug)]
enum PnSeq {
    None,
    In { g: u32, next: u8, chain: Option<Chain> },
    Between { chain: Chain },
}
#[derive(Clone, Debug)]
enum PoPhase {
    /// parts still being delivered; `unit_at`: when the first value byte of a two-byte unit was fed
    In { next: u8, unit_at: Option<Span> },
    /// a 7-bit data entry was fed completely at `since`; waiting for late poll / next contributing
    Waiting { since: Span },
}
#[derive(Clone, Debug)]
struct PoTrack {
    g: u32,
    phase: PoPhase,
    got: Vec<Pn>,
}

struct Fork {
    copy: Scn,
    remaining: usize,
    /// false once the original went through an aborted feed the copy never saw: results are
    /// still compared, the end states no longer (a conservative dirty mark is not a difference
    /// the property speaks of)
    compare_end_state: bool,
}

/// A host-side checkpoint of every scanner instance together with the observers' view of them.
struct Snap {
    main: Scn,
    idle_twin: Scn,
    solo: Vec<Scn>,
    twin: Scn,
    fresh: Option<Scn>,
    m_cc: Cc14Model,
    m_pn: PnModel,
    obs: PollObs,
    taken_at: Duration,
    probe: Vec<Option<ParameterNumberMessage>>,
    probed: Scn,
}

pub struct RunResult {
    pub violations: Vec<Violation>,
    pub probes: Probes,
    pub signature: u64,
    /// per claimed property (index into PROPS): did this run hit the property's witness probe?
    pub witness: [bool; 11],
    #[allow(dead_code)]
    pub executed_events: usize,
}

pub struct Exec<'a> {
    trace: &'a Trace,
    timeout: Duration,
    timeout_class: usize,
    now: Duration,
    now_ns: u128,
    /// clock span of the main instance's call in the current step (start, after)
    span: Span,
    main: Scn,
    solo: Vec<Scn>,
    twin: Scn,
    fresh: Option<Scn>,
    forks: Vec<Fork>,
    snap: Option<Box<Snap>>,
    restored: bool,
    m_cc: Cc14Model,
    m_pn: PnModel,
    obs: PollObs,
    groups: Vec<Option<Group>>,
    cc_prev: Option<(u32, u8, bool)>,
    pn_seq: PnSeq,
    po_track: Vec<Option<PoTrack>>,
    sink: Sink,
    pub p: Probes,
    sig: Fnv,
    // witness bookkeeping
    w_c08_just: bool,
    w_c08_unjust: bool,
    w_c11_just: bool,
    w_c11_missing_half: bool,
    w_c12: bool,
    w_c13: bool,
    w_c14: bool,
    w_c15: bool,
    w_c16: bool,
    w_c17_reset_inflight: bool,
    w_c17: bool,
    /// number of upcoming calls on the main instance that run on another OS thread
    hop: u32,
    /// (calls left, offset): the next calls on the main instance are made on a copy that lives at
    /// an address congruent to `offset` modulo 8
    misplaced: (u32, u8),
    /// number of upcoming calls on the main instance made from a destructor during unwinding
    unwinding: u32,
    /// a call on the main instance panicked during the current step (allocation by the panic
    /// machinery is then not blamed on C18.alloc)
    main_panicked: bool,
}

const MAX_GROUPS: usize = 1 << 16;

fn timeout_class(t: Duration) -> usize {
    if t.is_zero() {
        0
    } else if t.as_nanos() >= (1u128 << 62) {
        2
    } else {
        1
    }
}

impl<'a> Exec<'a> {
    pub fn run(trace: &'a Trace) -> RunResult {
        let clock_reads_before = clk::clock_reads().wrapping_add(apimon::foreign_clock_reads());
        let calls_before = apimon::calls();
        let allocs_before = apimon::allocs_in_api();
        clk::set_now(Duration::ZERO);
        clk::set_read_step(dur(trace.read_step_ns));
        crate::simclock::set_read_step(dur(trace.read_step_ns));
        let direct_before = crate::simclock::direct_reads() + apimon::foreign_direct_reads();
        crate::simenv::set_mode(trace.env_mode);
        crate::simio::set_fail(trace.stdio_fails);
        let stdio_before = crate::simio::writes();
        let env_reads_before = crate::simenv::reads();
        let timeout = dur(trace.timeout_ns);
        let mut sink = Sink::new();
        let init = (|| -> Result<(Scn, Vec<Scn>, Scn), Panicked> {
            let make = if trace.ctor_default { default_scn } else { new_scn };
            let main = make(timeout)?;
            let mut solo = Vec::with_capacity(16);
            for _ in 0..16 {
                solo.push(make(timeout)?);
            }
            let twin = make(timeout)?;
            Ok((main, solo, twin))
        })();
        let (main, solo, twin) = match init {
            Ok(x) => x,
            Err(Panicked(l)) => {
                sink.check(R::C18_panic, false, || format!("panic in {}", apimon::LABEL_NAMES[l as usize]));
                let mut p = Probes::new();
                p.runs = 1;
                return RunResult { violations: sink.viol, probes: p, signature: 0, witness: [false; 11], executed_events: 0 };
            }
        };
        let mut e = Exec {
            trace,
            timeout,
            timeout_class: timeout_class(timeout),
            now: Duration::ZERO,
            now_ns: 0,
            span: Span::at(Duration::ZERO),
            main,
            solo,
            twin,
            fresh: None,
            forks: Vec::new(),
            snap: None,
            restored: false,
            m_cc: Cc14Model::default(),
            m_pn: PnModel::default(),
            obs: PollObs::new(timeout),
            groups: Vec::new(),
            cc_prev: None,
            pn_seq: PnSeq::None,
            po_track: vec![None; 16],
            sink,
            p: Probes::new(),
            sig: Fnv::new(),
            w_c08_just: false,
            w_c08_unjust: false,
            w_c11_just: false,
            w_c11_missing_half: false,
            w_c12: false,
            w_c13: false,
            w_c14: false,
            w_c15: false,
            w_c16: false,
            w_c17_reset_inflight: false,
            w_c17: false,
            hop: 0,
            misplaced: (0, 0),
            unwinding: 0,
            main_panicked: false,
        };
        e.p.runs = 1;
        e.p.timeout_class_runs[e.timeout_class] += 1;
        let mut executed = 0;
        let mut aborted = false;
        let mut allocs_seen = apimon::allocs_in_api();
        let mut soft_seen = apimon::soft_panics();
        match e.prologue() {
            Ok(()) => {}
            Err(Panicked(l)) => {
                e.sink.check(R::C18_panic, false, || format!("panic in {} (run prologue)", apimon::LABEL_NAMES[l as usize]));
                aborted = true;
            }
        }
        if !aborted {
            'outer: for (i, ev) in trace.events.iter().enumerate() {
                e.sink.idx = i;
                executed = i + 1;
                // a soak loop re-executes the k events before it n more times
                let (lo, rounds) = match ev {
                    Ev::Repeat { k, n } => {
                        e.p.soak_loops += 1;
                        (i.saturating_sub(*k as usize), *n as usize)
                    }
                    _ => (i, 1),
                };
                for _ in 0..rounds {
                    for j in lo..=i {
                        let ev = &trace.events[j];
                        if j < i {
                            if matches!(ev, Ev::Repeat { .. }) {
                                continue;
                            }
                            e.p.soak_steps += 1;
                        } else if matches!(ev, Ev::Repeat { .. }) {
                            continue;
                        }
                        e.p.steps += 1;
                        if e.sink.muted {
                            e.p.events_not_judged_after_a_liar += 1;
                        }
                        let r = e.step(ev);
                        e.resync_clock();
                        e.sink.evals[R::C18_panic as usize] += 1;
                        if let Err(Panicked(l)) = r {
                            e.sink.check(R::C18_panic, false, || format!("panic in {} while executing event {}: {}", apimon::LABEL_NAMES[l as usize], j, ev.to_json().compact()));
                            // the panic machinery allocates; do not blame that on C18.alloc
                            break 'outer;
                        }
                        let a = apimon::allocs_in_api();
                        let sp = apimon::soft_panics();
                        if sp != soft_seen {
                            // a shadow instance panicked in feed/poll (answered as "nothing")
                            soft_seen = sp;
                            if !e.main_panicked {
                                e.sink.check(R::C18_panic, false, || format!("panic in feed/poll of a shadow instance (solo, twin, fresh or lockstep copy) while executing event {}: {}", j, ev.to_json().compact()));
                            }
                            e.main_panicked = true;
                        }
                        if e.main_panicked {
                            e.main_panicked = false;
                            allocs_seen = a;
                            e.p.panics_on_main_answered_as_nothing += 1;
                        }
                        e.sink.check(R::C18_alloc, a == allocs_seen, || format!("{} heap allocation(s) inside API regions while executing event {}: {}", a - allocs_seen, j, ev.to_json().compact()));
                        allocs_seen = a;
                    }
                }
            }
        }
        // unfinished round-trip trackers
        for t in e.po_track.iter() {
            if t.is_some() {
                e.p.rt_c12_unfinished += 1;
            }
        }
        let _ = allocs_before;
        e.p.clock_reads = clk::clock_reads().wrapping_add(apimon::foreign_clock_reads()).wrapping_sub(clock_reads_before);
        e.p.direct_clock_reads = crate::simclock::direct_reads() + apimon::foreign_direct_reads() - direct_before;
        e.p.env_reads = crate::simenv::reads() - env_reads_before;
        e.p.stdio_writes_inside_api_regions = crate::simio::writes() - stdio_before;
        e.p.stdio_mode_runs[trace.stdio_fails as usize] += 1;
        e.p.env_mode_runs[trace.env_mode as usize % 4] += 1;
        let calls = apimon::calls();
        for i in 0..apimon::N_LABELS {
            e.p.api_calls[i] = calls[i] - calls_before[i];
        }
        for i in 0..N_RULES {
            e.p.rule_evals[i] = e.sink.evals[i];
        }
        let ev = &e.sink.evals;
        let witness = [
            ev[R::C07_roundtrip as usize] > 0,
            e.w_c08_just && e.w_c08_unjust,
            ev[R::C10_roundtrip as usize] + ev[R::C10_running as usize] > 0,
            e.w_c11_just && e.w_c11_missing_half,
            e.w_c12,
            e.w_c13,
            e.w_c14,
            e.w_c15,
            e.w_c16,
            e.w_c17,
            e.p.reports_cc14 + e.p.reports_pn + e.p.reports_polling_feed + e.p.reports_polling_poll > 0,
        ];
        for (i, w) in witness.iter().enumerate() {
            if *w {
                e.p.witness[i] = 1;
            }
        }
        RunResult { violations: e.sink.viol, probes: e.p, signature: e.sig.0, witness, executed_events: executed }
    }

    /// Once per run: constructor equalities (C17.ctor) and the 128-point predicate table (C16).
    fn prologue(&mut self) -> Result<(), Panicked> {
        let ok = api(L::scanner_default, || {
            ControlChange14BitMessageScanner::new() == ControlChange14BitMessageScanner::default()
                && ParameterNumberMessageScanner::new() == ParameterNumberMessageScanner::default()
                && PollingParameterNumberMessageScanner::new(Duration::ZERO) == PollingParameterNumberMessageScanner::default()
        })?;
        self.sink.check(R::C17_ctor, ok, || "new() != default() for one of the scanners".into());
        for n in 0..128u8 {
            self.check_predicates(n)?;
        }
        let consts_ok = api(L::predicates, || {
            use controller_numbers::*;
            let pairs = [
                (BANK_SELECT, BANK_SELECT_LSB),
                (MODULATION_WHEEL, MODULATION_WHEEL_LSB),
                (BREATH_CONTROLLER, BREATH_CONTROLLER_LSB),
                (FOOT_CONTROLLER, FOOT_CONTROLLER_LSB),
                (PORTAMENTO_TIME, PORTAMENTO_TIME_LSB),
                (DATA_ENTRY_MSB, DATA_ENTRY_MSB_LSB),
                (CHANNEL_VOLUME, CHANNEL_VOLUME_LSB),
                (BALANCE, BALANCE_LSB),
                (PAN, PAN_LSB),
                (EXPRESSION_CONTROLLER, EXPRESSION_CONTROLLER_LSB),
                (EFFECT_CONTROL_1, EFFECT_CONTROL_1_LSB),
                (EFFECT_CONTROL_2, EFFECT_CONTROL_2_LSB),
                (GENERAL_PURPOSE_CONTROLLER_1, GENERAL_PURPOSE_CONTROLLER_1_LSB),
                (GENERAL_PURPOSE_CONTROLLER_2, GENERAL_PURPOSE_CONTROLLER_2_LSB),
                (GENERAL_PURPOSE_CONTROLLER_3, GENERAL_PURPOSE_CONTROLLER_3_LSB),
                (GENERAL_PURPOSE_CONTROLLER_4, GENERAL_PURPOSE_CONTROLLER_4_LSB),
            ];
            pairs.iter().all(|(m, l)| m.get() + 32 == l.get() && m.get() < 32)
        })?;
        self.sink.check(R::C16_predicate, consts_ok, || "a *_LSB constant is not its MSB constant + 32".into());
        Ok(())
    }

    fn check_predicates(&mut self, n: u8) -> Result<(), Panicked> {
        let (a, b, c) = api(L::predicates, || {
            let k = ControllerNumber::new(n);
            (k.can_be_part_of_14_bit_control_change_message(), k.corresponding_14_bit_lsb_controller_number().map(|x| x.get()), k.is_parameter_number_message_controller_number())
        })?;
        let ok = a == is_cc14_cn(n) && b == if n < 32 { Some(n + 32) } else { None } && c == is_pn_cn(n);
        self.sink.check(R::C16_predicate, ok, || format!("controller {}: can_be_part_of_14_bit={} corresponding_lsb={:?} is_parameter_number={}", n, a, b, c));
        Ok(())
    }

    /// Marathon (see `Ev::Bulk`). Only messages that can never justify a report take part: every
    /// reference model is idempotent under them after the first round, so the observers hear two
    /// rounds before and one round after, and the n rounds in between are a bare loop over every
    /// instance that must answer nothing every time.
    fn do_bulk(&mut self, n: u32, cycle: &[[u8; 3]]) -> Result<(), Panicked> {
        let quiet = |b: &[u8; 3]| {
            if b[0] < 0x80 || b[1] > 127 || b[2] > 127 {
                return false;
            }
            match cc(*b) {
                Some((_, cn, _)) => !matches!(cn, 6 | 38 | 96 | 97) && !(32..64).contains(&cn),
                None => true,
            }
        };
        let msgs: Vec<[u8; 3]> = cycle.iter().filter(|b| quiet(b)).cloned().collect();
        if msgs.is_empty() {
            return Ok(());
        }
        self.p.bulk_events += 1;
        if n >= 1 << 16 {
            self.p.bulk_rounds_max_2pow16 += 1;
        }
        if n >= 1 << 20 {
            self.p.bulk_rounds_max_2pow20 += 1;
        }
        if n >= 1 << 24 {
            self.p.bulk_rounds_max_2pow24 += 1;
        }
        for _ in 0..2 {
            for b in msgs.iter() {
                self.deliver(*b, REPR_RAW, None)?;
                self.resync_clock();
            }
        }
        // ---- the fast path
        struct M {
            raw: RawShortMessage,
            b: [u8; 3],
            solo: Option<usize>,
            twin_cc: bool,
            twin_pn: bool,
        }
        let mut pre: Vec<M> = Vec::with_capacity(msgs.len());
        for b in msgs.iter() {
            let raw = api(L::ingest_from_bytes, || RawShortMessage::from_bytes((b[0], U7::new(b[1]), U7::new(b[2]))))?;
            let Ok(raw) = raw else { return Ok(()) };
            let ccv = cc(*b);
            pre.push(M {
                raw,
                b: *b,
                solo: if b[0] < 0xF0 { Some((b[0] & 0x0F) as usize) } else { None },
                twin_cc: matches!(ccv, Some((_, cn, _)) if is_cc14_cn(cn)),
                twin_pn: matches!(ccv, Some((_, cn, _)) if is_pn_cn(cn)),
            });
        }
        let t0 = self.now;
        let (main, solo, twin, fresh, forks) = (&mut self.main, &mut self.solo, &mut self.twin, &mut self.fresh, &mut self.forks);
        // (round, message, instance, scanner) of the first answer that is not "nothing"
        let anomaly = api(L::polling_feed, || {
            for round in 0..n {
                for (j, m) in pre.iter().enumerate() {
                    macro_rules! quiet_feed {
                        ($s:expr, $inst:expr, $cc:expr, $pn:expr) => {{
                            clk::set_now(t0);
                            if $cc && $s.cc.feed(&m.raw).is_some() {
                                return Some((round, j, $inst, 0u8));
                            }
                            if $pn {
                                if $s.pn.feed(&m.raw).is_some() {
                                    return Some((round, j, $inst, 1u8));
                                }
                                if $s.po.feed(&m.raw) != [None, None] {
                                    return Some((round, j, $inst, 2u8));
                                }
                            }
                        }};
                    }
                    quiet_feed!(main, 0u8, true, true);
                    if let Some(c) = m.solo {
                        quiet_feed!(solo[c], 1u8, true, true);
                    }
                    quiet_feed!(twin, 2u8, m.twin_cc, m.twin_pn);
                    if let Some(f) = fresh.as_mut() {
                        quiet_feed!(f, 3u8, true, true);
                    }
                    for f in forks.iter_mut() {
                        quiet_feed!(f.copy, 4u8, true, true);
                    }
                }
            }
            None
        })?;
        clk::set_now(t0);
        self.p.bulk_fast_rounds += n as u64;
        self.p.bulk_fast_feeds += n as u64 * pre.len() as u64;
        self.sig.b(0x71);
        if let Some((round, j, inst, scn)) = anomaly {
            let rule = match (inst, scn) {
                (0, 0) => R::C08_spurious,
                (0, 1) => R::C11_spurious,
                (0, _) => R::C14_I3,
                (1, _) => R::C15_solo_feed,
                (2, _) => R::C16_twin,
                (3, _) => R::C17_fresh,
                _ => R::C17_copy,
            };
            let who = ["the main instance", "the solo scanner of that channel (the main instance had answered nothing)", "the filtered twin (the main instance had answered nothing)", "the scanner created at the last reset (the main instance had answered nothing)", "a lockstep copy (the main instance had answered nothing)"][inst as usize];
            let what = ["14-bit CC", "(N)RPN", "polling (N)RPN"][scn as usize];
            let b = pre[j].b;
            self.sink.check(rule, false, || format!("marathon round {} (after 2 observed rounds): {:02x?}, which can justify no report, made the {} scanner of {} report something", round, b, what, who));
            // the instances are out of step now; the closing round would only add noise
            return Ok(());
        }
        for b in msgs.iter() {
            self.deliver(*b, REPR_RAW, None)?;
            self.resync_clock();
        }
        Ok(())
    }

    /// A feed that unwinds out of the caller's own message object (caught by the host): no message
    /// was delivered, so no observer and no shadow instance hears of it - whatever the scanners
    /// made of it shows in what they do afterwards. A call that completes nevertheless (the
    /// scanner never asked for the poisoned byte) is rolled back from the pre-call copy, so that
    /// the event means "nothing was delivered" in every case.
    fn do_feed_abort(&mut self, b: [u8; 3], which: u8) -> Result<(), Panicked> {
        if b[0] < 0x80 || b[1] > 127 || b[2] > 127 {
            return Ok(());
        }
        self.p.aborted_feeds += 1;
        clk::set_now(self.now);
        let before = api(L::scanner_copy, || self.main)?;
        let msg = Panicky { b, which };
        let m = &mut self.main;
        let mut unwound = 0;
        match api_expect_panic(L::cc14_feed, || m.cc.feed(&msg)) {
            Ok(_) => m.cc = before.cc,
            Err(()) => unwound += 1,
        }
        match api_expect_panic(L::pn_feed, || m.pn.feed(&msg)) {
            Ok(_) => m.pn = before.pn,
            Err(()) => unwound += 1,
        }
        match api_expect_panic(L::polling_feed, || m.po.feed(&msg)) {
            Ok(_) => m.po = before.po,
            Err(()) => unwound += 1,
        }
        if unwound > 0 {
            for f in self.forks.iter_mut() {
                f.compare_end_state = false;
            }
        }
        self.p.aborted_feed_calls_unwound += unwound;
        self.p.aborted_feed_calls_completed_and_rolled_back += 3 - unwound;
        self.sig.b(0x70);
        Ok(())
    }

    /// A self-contradicting message goes to the main instance only. From here to the next reset or
    /// restore nothing is judged (no model can say what the scanners should make of it, and a
    /// panic or allocation on such input is not the crate's fault either); the reset itself is
    /// judged again: whatever was fed, `reset()` leaves a scanner equal to a new one (C17).
    fn do_liar(&mut self, raw: [u8; 3], st: [u8; 3], fickle: bool) -> Result<(), Panicked> {
        let ok = |b: &[u8; 3]| b[0] >= 0x80 && b[1] < 128 && b[2] < 128;
        if !ok(&raw) || !ok(&st) {
            return Ok(());
        }
        let Ok(st_raw) = RawShortMessage::from_bytes((st[0], U7::new(st[1]), U7::new(st[2]))) else { return Ok(()) };
        let msg = Liar { raw, st: st_raw.to_structured() };
        self.p.liar_feeds += 1;
        self.sink.muted = true;
        clk::set_now(self.now);
        let m = &mut self.main;
        // whatever happens in there, including a panic, is not judged
        if fickle {
            let mk = || Fickle { a: raw, b: st, calls: Default::default() };
            let (m1, m2, m3) = (mk(), mk(), mk());
            let _ = api_expect_panic(L::cc14_feed, || m.cc.feed(&m1));
            let _ = api_expect_panic(L::pn_feed, || m.pn.feed(&m2));
            let _ = api_expect_panic(L::polling_feed, || m.po.feed(&m3));
        } else {
            let _ = api_expect_panic(L::cc14_feed, || m.cc.feed(&msg));
            let _ = api_expect_panic(L::pn_feed, || m.pn.feed(&msg));
            let _ = api_expect_panic(L::polling_feed, || m.po.feed(&msg));
        }
        self.sig.b(0x72);
        Ok(())
    }

    /// At which address offset (modulo 8) does the next call on the main instance find its scanner?
    fn take_place(&mut self) -> u8 {
        if self.misplaced.0 > 0 {
            self.misplaced.0 -= 1;
            self.p.calls_on_a_misplaced_copy += 1;
            self.misplaced.1
        } else {
            0
        }
    }

    /// Does the next call on the main instance run on another OS thread?
    fn take_hop(&mut self) -> Mode {
        if self.hop > 0 {
            self.hop -= 1;
            self.p.calls_on_another_thread += 1;
            Mode::OtherThread
        } else if self.unwinding > 0 {
            self.unwinding -= 1;
            self.p.calls_from_an_unwinding_destructor += 1;
            Mode::Unwinding
        } else {
            Mode::Plain
        }
    }

    /// Time may have passed inside the calls of this step (clock read step): adopt the hook clock.
    fn resync_clock(&mut self) {
        let t = clk::now();
        if t != self.now {
            self.p.calls_during_which_time_passed += 1;
            self.now = t;
            self.now_ns = t.as_nanos().min(DUR_MAX_NS);
        }
    }

    /// Puts the hook clock back to the start of the current step, so that a shadow instance sees
    /// exactly the clock readings the main instance saw.
    #[inline]
    fn rewind(&self) {
        clk::set_now(self.span.a);
    }

    fn group(&self, g: u32) -> Option<&Group> {
        self.groups.get(g as usize).and_then(|x| x.as_ref())
    }

    fn step(&mut self, ev: &Ev) -> Result<(), Panicked> {
        match ev {
            Ev::Adv { ns } => {
                self.p.advances += 1;
                let before = self.now_ns;
                self.now_ns = self.now_ns.saturating_add(*ns).min(DUR_MAX_NS);
                self.now = dur(self.now_ns);
                clk::set_now(self.now);
                let d = self.now_ns - before;
                if d >= (1u128 << 62) {
                    self.p.infinite_jumps += 1;
                } else {
                    self.p.sim_time_ns = self.p.sim_time_ns.saturating_add(d);
                }
                self.sig.b(0x10);
                self.sig.b(if *ns == 0 {
                    0
                } else if *ns < self.trace.timeout_ns {
                    1
                } else if *ns == self.trace.timeout_ns {
                    2
                } else if *ns < (1u128 << 62) {
                    3
                } else {
                    4
                });
                Ok(())
            }
            Ev::Reset => self.do_reset(),
            Ev::Resets { n } => {
                // reset storm: n-1 bare resets on every instance, then one fully checked reset
                let n = (*n).max(1);
                self.p.reset_storm_resets += (n - 1) as u64;
                if n > 1 {
                    let (m, solo, twin, fresh, forks) = (&mut self.main, &mut self.solo, &mut self.twin, &mut self.fresh, &mut self.forks);
                    api(L::scanner_reset, || {
                        for _ in 1..n {
                            m.cc.reset();
                            m.pn.reset();
                            m.po.reset();
                            for s in solo.iter_mut() {
                                s.cc.reset();
                                s.pn.reset();
                                s.po.reset();
                            }
                            twin.cc.reset();
                            twin.pn.reset();
                            twin.po.reset();
                            if let Some(f) = fresh.as_mut() {
                                f.cc.reset();
                                f.pn.reset();
                                f.po.reset();
                            }
                            for f in forks.iter_mut() {
                                f.copy.cc.reset();
                                f.copy.pn.reset();
                                f.copy.po.reset();
                            }
                        }
                    })?;
                }
                self.do_reset()
            }
            Ev::Poll { ch } => self.do_poll(*ch),
            Ev::Feed { b, repr } => self.deliver(*b, *repr, None),
            Ev::Part { g, i, repr, x } => {
                let Some(grp) = self.group(*g) else { return Ok(()) };
                let Some(pb) = grp.parts.get(*i as usize).copied() else { return Ok(()) };
                let b = [pb[0] ^ x[0], pb[1] ^ x[1], pb[2] ^ x[2]];
                let part = if *x == [0, 0, 0] { Some((*g, *i)) } else { None };
                self.deliver(b, *repr, part)
            }
            Ev::EncCc14 { g, ch, cn, val, fac } => self.enc_cc14(*g, *ch, *cn, *val, *fac),
            Ev::EncPn { g, ch, num, val, reg, kind, order, fac } => self.enc_pn(*g, *ch, *num, *val, *reg, *kind, *order, *fac),
            Ev::Fork { k, burst } => self.do_fork(*k, burst),
            Ev::Repeat { .. } => Ok(()),
            Ev::Snapshot => self.do_snapshot(),
            Ev::FeedAbort { b, which } => self.do_feed_abort(*b, *which),
            Ev::Bulk { n, cycle } => self.do_bulk(*n, cycle),
            Ev::Misplaced { n, offset } => {
                self.p.misplaced_windows += 1;
                self.misplaced = (*n as u32, *offset % 8);
                Ok(())
            }
            Ev::Unwinding { n } => {
                self.p.unwinding_windows += 1;
                self.unwinding = *n as u32;
                Ok(())
            }
            Ev::Liar { raw, st, fickle } => self.do_liar(*raw, *st, *fickle),
            Ev::Hop { n } => {
                self.p.thread_hop_windows += 1;
                self.hop = *n as u32;
                Ok(())
            }
            Ev::Restore => self.do_restore(),
        }
    }

    fn put_group(&mut self, g: u32, grp: Group) {
        let g = g as usize;
        if g >= MAX_GROUPS {
            return;
        }
        if self.groups.len() <= g {
            self.groups.resize(g + 1, None);
        }
        self.groups[g] = Some(grp);
    }

    fn enc_cc14(&mut self, g: u32, ch: u8, cn: u8, val: u16, fac: u8) -> Result<(), Panicked> {
        self.p.enc_cc14 += 1;
        self.sig.b(0x20);
        let args = api(L::newtype_conversions, || (Channel::new(ch), ControllerNumber::new(cn), U14::new(val)))?;
        let made: Result<ControlChange14BitMessage, Option<Panicked>> = if cn > 31 {
            self.p.bad_argument_ctor += 1;
            api_expect_panic(L::cc14_new_bad_argument, || ControlChange14BitMessage::new(args.0, args.1, args.2)).map_err(|_| None)
        } else {
            api(L::cc14_new, || ControlChange14BitMessage::new(args.0, args.1, args.2)).map_err(Some)
        };
        let msg = match made {
            Err(None) => {
                // the documented panic happened
                self.sink.check(R::C07_ctor, true, String::new);
                return Ok(());
            }
            Err(Some(p)) => {
                // undocumented panic on a valid argument: C07.ctor and C18.panic
                self.sink.check(R::C07_ctor, false, || format!("ControlChange14BitMessage::new panicked for MSB controller {}", cn));
                return Err(p);
            }
            Ok(m) => {
                self.sink.check(R::C07_ctor, cn <= 31, || format!("ControlChange14BitMessage::new accepted MSB controller {}", cn));
                m
            }
        };
        if cn > 31 {
            return Ok(()); // accepted although it must not be: do not build on it
        }
        let rb = api(L::cc14_accessors, || c14_img(&msg))?;
        self.sink.check(R::C07_readback, rb == C14 { ch, msb_cn: cn, lsb_cn: cn + 32, val }, || format!("constructed ({}, {}, {}) but accessors say {:?}", ch, cn, val, rb));
        let f = |x: (u8, U7, U7)| [x.0, x.1.get(), x.2.get()];
        let (p1, p2): ([[u8; 3]; 2], [[u8; 3]; 2]) = api(L::cc14_encode, || {
            if fac == 0 {
                let a: [RawShortMessage; 2] = msg.to_short_messages();
                let b: [RawShortMessage; 2] = msg.into();
                ([f(a[0].to_bytes()), f(a[1].to_bytes())], [f(b[0].to_bytes()), f(b[1].to_bytes())])
            } else {
                let a: [StructuredShortMessage; 2] = msg.to_short_messages();
                let b: [StructuredShortMessage; 2] = msg.into();
                ([f(a[0].to_bytes()), f(a[1].to_bytes())], [f(b[0].to_bytes()), f(b[1].to_bytes())])
            }
        })?;
        let want = [[0xB0 | ch, cn, (val >> 7) as u8], [0xB0 | ch, cn + 32, (val & 0x7f) as u8]];
        self.sink.check(R::C07_encode, p1 == want && p2 == want, || format!("({}, {}, {}) encodes to {:?} / {:?}, want {:?}", ch, cn, val, p1, p2, want));
        self.put_group(g, Group { msg: GroupMsg::Cc14(msg), parts: p1.to_vec(), ch, num: cn as u16, reg: false, kind: 0, order: 0, want_pn: None });
        Ok(())
    }

    #[allow(clippy::too_many_arguments)]
    fn enc_pn(&mut self, g: u32, ch: u8, num: u16, val: u16, reg: bool, kind: u8, order: u8, fac: u8) -> Result<(), Panicked> {
        self.p.enc_pn += 1;
        self.sig.b(0x21);
        self.sig.b(kind);
        let val = if kind == K_14BIT { val & 0x3fff } else { val & 0x7f };
        let (c, n) = api(L::newtype_conversions, || (Channel::new(ch), U14::new(num)))?;
        let msg = api(L::pn_ctor, || {
            let v7 = U7::new((val & 0x7f) as u8);
            match (reg, kind) {
                (false, K_7BIT) => ParameterNumberMessage::non_registered_7_bit(c, n, v7),
                (false, K_14BIT) => ParameterNumberMessage::non_registered_14_bit(c, n, U14::new(val)),
                (false, K_INC) => ParameterNumberMessage::non_registered_increment(c, n, v7),
                (false, _) => ParameterNumberMessage::non_registered_decrement(c, n, v7),
                (true, K_7BIT) => ParameterNumberMessage::registered_7_bit(c, n, v7),
                (true, K_14BIT) => ParameterNumberMessage::registered_14_bit(c, n, U14::new(val)),
                (true, K_INC) => ParameterNumberMessage::registered_increment(c, n, v7),
                (true, _) => ParameterNumberMessage::registered_decrement(c, n, v7),
            }
        })?;
        let f = |x: (u8, U7, U7)| [x.0, x.1.get(), x.2.get()];
        let arr: [Option<[u8; 3]>; 4] = api(L::pn_encode, || {
            let o = if order == 0 { DataEntryByteOrder::MsbFirst } else { DataEntryByteOrder::LsbFirst };
            // the array conversion is the other documented way to get the MSB-first encoding: every
            // second MSB-first group uses it
            let via_array = order == 0 && g % 2 == 1;
            if via_array && fac == 0 {
                let p: [Option<RawShortMessage>; 4] = msg.into();
                [p[0].map(|q| f(q.to_bytes())), p[1].map(|q| f(q.to_bytes())), p[2].map(|q| f(q.to_bytes())), p[3].map(|q| f(q.to_bytes()))]
            } else if via_array {
                let p: [Option<StructuredShortMessage>; 4] = msg.into();
                [p[0].map(|q| f(q.to_bytes())), p[1].map(|q| f(q.to_bytes())), p[2].map(|q| f(q.to_bytes())), p[3].map(|q| f(q.to_bytes()))]
            } else if fac == 0 {
                let p: [Option<RawShortMessage>; 4] = msg.to_short_messages(o);
                [p[0].map(|q| f(q.to_bytes())), p[1].map(|q| f(q.to_bytes())), p[2].map(|q| f(q.to_bytes())), p[3].map(|q| f(q.to_bytes()))]
            } else {
                let p: [Option<StructuredShortMessage>; 4] = msg.to_short_messages(o);
                [p[0].map(|q| f(q.to_bytes())), p[1].map(|q| f(q.to_bytes())), p[2].map(|q| f(q.to_bytes())), p[3].map(|q| f(q.to_bytes()))]
            }
        })?;
        let parts: Vec<[u8; 3]> = arr.iter().flatten().copied().collect();
        let want_pn = Some(Pn { ch, num, val, reg, b14: kind == K_14BIT, dt: match kind {
            K_INC => 1,
            K_DEC => 2,
            _ => 0,
        } });
        self.put_group(g, Group { msg: GroupMsg::Pn(msg), parts, ch, num, reg, kind, order, want_pn });
        Ok(())
    }

    fn do_reset(&mut self) -> Result<(), Panicked> {
        self.p.resets += 1;
        self.sig.b(0x30);
        // probes: what is in flight when the reset lands
        let cc_if = self.m_cc.last.iter().any(|x| x.is_some());
        let pn_if = self.m_pn.ch.iter().any(|h| h.msb.is_some() || h.lsb.is_some() || h.v38.is_some());
        let po_if = self.obs.ch.iter().any(|h| h.in_flight());
        self.p.reset_cells[cc_if as usize] += 1;
        self.p.reset_cells[2 + pn_if as usize] += 1;
        self.p.reset_cells[4 + po_if as usize] += 1;
        if cc_if || pn_if || po_if {
            self.w_c17_reset_inflight = true;
        }
        for c in 0..16 {
            if self.m_cc.last[c].is_some() {
                self.p.c08_cells[7 + 6] += 1;
            } else {
                self.p.c08_cells[6] += 1;
            }
            let h = self.m_pn.ch[c];
            let halves = match (h.msb.is_some(), h.lsb.is_some()) {
                (false, false) => 0,
                (true, false) => 1,
                (false, true) => 2,
                (true, true) => 3,
            };
            self.p.c11_cells[halves * 16 + (h.v38.is_some() as usize) * 8 + 7] += 1;
            self.p.rec_cells[self.obs.ch[c].st.class() * 9 + 8] += 1;
        }
        let timeout = self.timeout;
        let hop = self.take_hop();
        let place = self.take_place();
        let m = &mut self.main;
        api_mode(hop, L::scanner_reset, || {
            at_offset(place, &mut m.cc, |x| x.reset());
            at_offset(place, &mut m.pn, |x| x.reset());
            at_offset(place, &mut m.po, |x| x.reset());
        })?;
        let fresh = new_scn(timeout)?;
        let m = &self.main;
        let (a, b, c) = api(L::scanner_eq, || (m.cc == fresh.cc, m.pn == fresh.pn, m.po == fresh.po))?;
        if self.sink.muted {
            // a self-contradicting message had been fed: from this reset on everything is judged again
            self.sink.muted = false;
            self.p.resets_judged_after_a_liar += 1;
        }
        self.sink.check(R::C17_equal, a && b && c, || format!("after reset(): cc14 == new(): {}, (N)RPN == new(): {}, polling == new({:?}): {}", a, b, timeout, c));
        self.m_cc = Cc14Model::default();
        self.m_pn = PnModel::default();
        self.obs.reset();
        let solo = &mut self.solo;
        let twin = &mut self.twin;
        let forks = &mut self.forks;
        api(L::scanner_reset, || {
            for s in solo.iter_mut() {
                s.cc.reset();
                s.pn.reset();
                s.po.reset();
            }
            twin.cc.reset();
            twin.pn.reset();
            twin.po.reset();
            for f in forks.iter_mut() {
                f.copy.cc.reset();
                f.copy.pn.reset();
                f.copy.po.reset();
            }
        })?;
        self.tick_forks()?;
        self.fresh = Some(fresh);
        self.cc_prev = None;
        self.pn_seq = PnSeq::None;
        for t in self.po_track.iter_mut() {
            if t.is_some() {
                self.p.rt_c12_abandoned += 1;
            }
            *t = None;
        }
        Ok(())
    }

    fn tick_forks(&mut self) -> Result<(), Panicked> {
        let mut i = 0;
        while i < self.forks.len() {
            self.p.fork_lockstep_steps += 1;
            if self.forks[i].remaining <= 1 {
                let f = self.forks.swap_remove(i);
                let m = &self.main;
                if f.compare_end_state {
                    let eq = api(L::scanner_eq, || f.copy.cc == m.cc && f.copy.pn == m.pn && f.copy.po == m.po)?;
                    self.sink.check(R::C17_copy, eq, || "a copy driven in lockstep with the original ended in a different state".into());
                }
            } else {
                self.forks[i].remaining -= 1;
                i += 1;
            }
        }
        Ok(())
    }

    fn do_snapshot(&mut self) -> Result<(), Panicked> {
        if self.sink.muted {
            // the observers' view is out of step with the main instance: not a state worth keeping
            return Ok(());
        }
        self.p.snapshots += 1;
        self.sig.b(0x32);
        let (m, solo, twin, fresh) = (&self.main, &self.solo, &self.twin, &self.fresh);
        let mut solo_copy: Vec<Scn> = Vec::with_capacity(16); // harness bookkeeping: allocated outside the region
        let (main, idle_twin, twin, fresh) = api(L::scanner_copy, || {
            for s in solo.iter() {
                solo_copy.push(*s);
            }
            (*m, *m, *twin, *fresh)
        })?;
        let solo = solo_copy;
        // what does a copy of this checkpoint answer when every channel is polled one timeout from now?
        let mut probed = main;
        let probe = self.probe_polls(&mut probed, self.now.saturating_add(self.timeout), 1);
        clk::set_now(self.now);
        let probe = probe?;
        self.snap = Some(Box::new(Snap { main, idle_twin, solo, twin, fresh, m_cc: self.m_cc.clone(), m_pn: self.m_pn.clone(), obs: self.obs.clone(), taken_at: self.now, probe, probed }));
        Ok(())
    }

    /// Restores the last checkpoint into every instance ("crash and restart from durable state";
    /// the clock has kept running). From here on all observers judge the restored instances.
    fn do_restore(&mut self) -> Result<(), Panicked> {
        let Some(snap) = self.snap.as_ref() else { return Ok(()) };
        self.p.restores += 1;
        self.sig.b(0x33);
        // an idle copy must not have moved while the original was being driven
        let eq = api(L::scanner_eq, || snap.main.cc == snap.idle_twin.cc && snap.main.pn == snap.idle_twin.pn && snap.main.po == snap.idle_twin.po)?;
        self.sink.check(R::C17_copy, eq, || "two idle copies taken at the same moment differ after the original was driven on".into());
        // the idle checkpoint must still answer what its sibling answered when it was taken (same
        // clock reading for this copy: it has not seen any later time)
        {
            let mut p2 = api(L::scanner_copy, || snap.main)?;
            let r2 = self.probe_polls(&mut p2, snap.taken_at.saturating_add(self.timeout), 1);
            clk::set_now(self.now);
            let r2 = r2?;
            let same = api(L::msg_eq, || r2 == snap.probe)?;
            let same_state = api(L::scanner_eq, || p2.cc == snap.probed.cc && p2.pn == snap.probed.pn && p2.po == snap.probed.po)?;
            self.sink.check(R::C17_copy, same && same_state, || format!("a checkpoint that sat idle while the original was driven on no longer answers polls the way its sibling copy did when it was taken: then {:?}, now {:?} (end states equal: {})", snap.probe, r2, same_state));
        }
        let solo = &mut self.solo;
        let (m, tw, fr) = api(L::scanner_copy, || {
            for (d, s) in solo.iter_mut().zip(snap.solo.iter()) {
                *d = *s;
            }
            (snap.main, snap.twin, snap.fresh)
        })?;
        self.main = m;
        self.twin = tw;
        self.fresh = fr;
        self.m_cc = snap.m_cc.clone();
        self.m_pn = snap.m_pn.clone();
        self.obs = snap.obs.clone();
        // every instance and every observer is back at the checkpoint (taken while in step)
        self.sink.muted = false;
        let m = &self.main;
        let eq = api(L::scanner_eq, || m.cc == snap.main.cc && m.pn == snap.main.pn && m.po == snap.main.po)?;
        self.sink.check(R::C17_copy, eq, || "a restored copy does not compare equal to the checkpoint".into());
        self.forks.clear();
        self.cc_prev = None;
        self.pn_seq = PnSeq::None;
        for t in self.po_track.iter_mut() {
            if t.is_some() {
                self.p.rt_c12_abandoned += 1;
            }
            *t = None;
        }
        if self.obs.ch.iter().any(|h| h.in_flight()) || self.m_cc.last.iter().any(|x| x.is_some()) {
            self.restored = true;
        }
        Ok(())
    }

    /// Polls all 16 channels of `s` at clock reading `at` (`passes` times), collecting the results.
    fn probe_polls(&self, s: &mut Scn, at: Duration, passes: usize) -> Result<Vec<Option<ParameterNumberMessage>>, Panicked> {
        let mut out = Vec::with_capacity(16 * passes);
        clk::set_now(at);
        for _ in 0..passes {
            for c in 0..16u8 {
                out.push(api(L::polling_poll, || s.po.poll(Channel::new(c)))?);
            }
        }
        Ok(out)
    }

    /// Probes a copy: polls every channel at `at + timeout`, then feeds `burst` at that reading and
    /// polls each touched channel one timeout later. Everything returned is collected. The copy
    /// sees a monotonic clock; the caller restores the hook clock afterwards.
    #[allow(clippy::type_complexity)]
    fn probe_copy(&self, s: &mut Scn, burst: &[[u8; 3]], at: Duration, poll_passes: usize) -> Result<(Vec<Option<ParameterNumberMessage>>, Vec<(Res3, Option<ParameterNumberMessage>)>), Panicked> {
        let t1 = at.saturating_add(self.timeout);
        let t2 = t1.saturating_add(self.timeout);
        let polls = self.probe_polls(s, t1, poll_passes)?;
        let mut out = Vec::with_capacity(burst.len());
        for b in burst {
            if b[0] < 0x80 || b[1] > 127 || b[2] > 127 {
                continue;
            }
            clk::set_now(t1);
            let raw = api(L::ingest_from_bytes, || RawShortMessage::from_bytes((b[0], U7::new(b[1]), U7::new(b[2]))))?;
            if let Ok(raw) = raw {
                let r = feed_scn(s, &raw, *b, REPR_RAW)?;
                let mut polled = None;
                if b[0] < 0xF0 {
                    let c = b[0] & 0x0F;
                    clk::set_now(t2);
                    polled = api(L::polling_poll, || s.po.poll(Channel::new(c)))?;
                }
                out.push((r, polled));
            }
        }
        Ok((polls, out))
    }

    fn do_fork(&mut self, k: u8, burst: &[[u8; 3]]) -> Result<(), Panicked> {
        self.p.forks += 1;
        self.sig.b(0x31);
        let m = &self.main;
        // both ways of copying: bitwise `Copy` and an explicit `Clone::clone` (the lockstep copy and
        // one of the probes are clones)
        #[allow(clippy::clone_on_copy)]
        let (lock, mut div, saved, mut p1, mut p2) = api(L::scanner_copy, || {
            let cl = Scn { cc: m.cc.clone(), pn: m.pn.clone(), po: m.po.clone() };
            let cl2 = Scn { cc: Clone::clone(&m.cc), pn: Clone::clone(&m.pn), po: Clone::clone(&m.po) };
            (cl, *m, *m, *m, cl2)
        })?;
        let eq = api(L::scanner_eq, || lock.cc == m.cc && lock.pn == m.pn && lock.po == m.po)?;
        self.sink.check(R::C17_copy, eq, || "a fresh copy does not compare equal to the original".into());
        // Independence of copies, behaviourally: probe copy p1 now; then drive the divergent copy
        // (reversed burst, at a much later clock reading); then probe copy p2 exactly as p1 was
        // probed. Whatever the divergent copy did must not show in p2 (hidden shared state would).
        let r1 = self.probe_copy(&mut p1, burst, self.now, 1);
        clk::set_now(self.now);
        let r1 = r1?;
        let rev: Vec<[u8; 3]> = burst.iter().rev().copied().collect();
        let later = self.now.saturating_add(self.timeout.saturating_mul(3)).saturating_add(Duration::from_secs(1));
        let rd = self.probe_copy(&mut div, &rev, later, 2);
        clk::set_now(self.now);
        rd?;
        // ... and so is an unrelated scanner created with a different timeout (configuration kept
        // anywhere but in the scanner value would leak from it)
        {
            let other_timeout = self.timeout.saturating_mul(2).saturating_add(Duration::from_secs(1));
            let mut decoy = new_scn(if self.timeout.is_zero() { Duration::from_secs(3600) } else if self.timeout > Duration::from_secs(1 << 40) { Duration::ZERO } else { other_timeout })?;
            let rx = self.probe_copy(&mut decoy, burst, later, 1);
            clk::set_now(self.now);
            rx?;
        }
        let r2 = self.probe_copy(&mut p2, burst, self.now, 1);
        clk::set_now(self.now);
        let r2 = r2?;
        let same = api(L::msg_eq, || r1 == r2)?;
        let same_state = api(L::scanner_eq, || p1.cc == p2.cc && p1.pn == p2.pn && p1.po == p2.po)?;
        self.sink.check(R::C17_copy, same && same_state, || format!("two copies of one scanner were polled on all channels and fed the same burst {:02x?} at the same clock readings, a third copy was driven in between: results differ ({:?} vs {:?}) or end states differ (equal: {})", burst, r1, r2, same_state));
        let m = &self.main;
        let eq = api(L::scanner_eq, || saved.cc == m.cc && saved.pn == m.pn && saved.po == m.po)?;
        self.sink.check(R::C17_copy, eq, || "feeding copies changed the original".into());
        if k > 0 && self.forks.len() < 4 {
            self.forks.push(Fork { copy: lock, remaining: k as usize, compare_end_state: true });
        }
        Ok(())
    }

    fn do_poll(&mut self, c: u8) -> Result<(), Panicked> {
        self.p.polls += 1;
        self.p.channels_used[c as usize] += 1;
        let chn = api(L::newtype_conversions, || Channel::new(c))?;
        let hop = self.take_hop();
        let place = self.take_place();
        let m = &mut self.main;
        let before = api(L::scanner_copy, || m.po)?;
        let t0 = self.now;
        clk::set_now(t0);
        let r = match api_mode(hop, L::polling_poll, || at_offset(place, &mut m.po, |x| x.poll(chn))) {
            Ok(r) => r,
            Err(Panicked(l)) => {
                // as for feeds: the caller of a caught panic got nothing; every observer judges that
                self.main_panicked = true;
                self.sink.check(R::C18_panic, false, || format!("panic in {} while polling channel {} on the main instance", apimon::LABEL_NAMES[l as usize], c));
                None
            }
        };
        self.span = Span { a: t0, b: clk::now() };
        let unchanged = api(L::scanner_eq, || before == m.po)?;
        let img = match r.as_ref() {
            Some(x) => Some(api(L::pn_accessors, || pn_img(x))?),
            None => None,
        };
        if let Some(x) = r.as_ref() {
            self.p.reports_polling_poll += 1;
            self.w_c14 = true;
            let ok = telemetry(x.channel(), x.number(), x.value(), None)?;
            self.p.telemetry_calls += 1;
            if !ok {
                self.p.telemetry_mismatch += 1;
            }
        }
        let info = self.obs.on_poll(c, img, self.span, unchanged, &mut self.sink);
        if info.straddle {
            self.p.polls_straddling_deadline += 1;
        }
        if info.what < 2 {
            self.w_c13 = true;
        }
        if info.rec_class != 0 {
            self.w_c12 = true;
        }
        self.p.poll_timing[info.what * 9 + info.when * 3 + self.timeout_class] += 1;
        self.p.rec_cells[info.rec_class * 9 + if info.rec_late { 6 } else { 5 }] += 1;
        self.sig.b(0x40);
        self.sig.b(c);
        self.sig.b((info.what * 3 + info.when) as u8);
        if let Some(i) = img {
            self.sink.check(R::C15_label, i.ch == c, || format!("poll({}) returned a message labelled channel {}", c, i.ch));
        }
        // C15: solo instance of that channel
        self.rewind();
        let s = &mut self.solo[c as usize];
        let rs = api_soft(L::polling_poll, None, || s.po.poll(chn))?;
        let eq = api(L::msg_eq, || rs == r)?;
        self.sink.check(R::C15_solo_poll, eq, || format!("poll({}): main returned {:?}, solo scanner of that channel {:?}", c, r, rs));
        // C16: filtered twin
        self.rewind();
        let t = &mut self.twin;
        let rt = api_soft(L::polling_poll, None, || t.po.poll(chn))?;
        let eq = api(L::msg_eq, || rt == r)?;
        self.sink.check(R::C16_twin, eq, || format!("poll({}): main returned {:?}, twin fed only contributing messages {:?}", c, r, rt));
        // C17: fresh twin
        if let Some(f) = self.fresh.as_mut() {
            self.p.fresh_twin_steps += 1;
            clk::set_now(self.span.a);
            let rf = api_soft(L::polling_poll, None, || f.po.poll(chn))?;
            let eq = api(L::msg_eq, || rf == r)?;
            self.sink.check(R::C17_fresh, eq, || format!("poll({}): reset scanner returned {:?}, scanner created with new() at the reset {:?}", c, r, rf));
            if self.w_c17_reset_inflight {
                self.w_c17 = true;
            }
        }
        for i in 0..self.forks.len() {
            clk::set_now(self.span.a);
            let f = &mut self.forks[i];
            let rf = api_soft(L::polling_poll, None, || f.copy.po.poll(chn))?;
            let eq = api(L::msg_eq, || rf == r)?;
            self.sink.check(R::C17_copy, eq, || format!("poll({}): original returned {:?}, lockstep copy {:?}", c, r, rf));
        }
        self.tick_forks()?;
        if self.restored {
            self.w_c17 = true;
        }
        clk::set_now(self.span.b);
        // C12 round-trip tracker
        let now = self.span;
        let timeout = self.timeout;
        let mut judge: Option<(u32, Vec<Pn>)> = None;
        if let Some(t) = self.po_track[c as usize].as_mut() {
            match t.phase {
                PoPhase::In { unit_at, .. } => {
                    if matches!(unit_at, Some(u) if maybe_late(u, now, timeout)) {
                        self.po_track[c as usize] = None;
                        self.p.rt_c12_abandoned += 1;
                    } else if let Some(i) = img {
                        t.got.push(i);
                    }
                }
                PoPhase::Waiting { since } => {
                    if let Some(i) = img {
                        t.got.push(i);
                    }
                    // judged once the deadline has certainly passed - or, when it fell inside this
                    // very call, as soon as the scanner has answered
                    if surely_late(since, now, timeout) || (maybe_late(since, now, timeout) && img.is_some()) {
                        judge = Some((t.g, std::mem::take(&mut t.got)));
                        self.po_track[c as usize] = None;
                    }
                }
            }
        }
        if let Some((g, got)) = judge {
            self.judge_c12(g, &got)?;
        }
        Ok(())
    }

    fn judge_c12(&mut self, g: u32, got: &[Pn]) -> Result<(), Panicked> {
        let Some(grp) = self.group(g) else { return Ok(()) };
        let GroupMsg::Pn(msg) = &grp.msg else { return Ok(()) };
        let built = api(L::pn_accessors, || pn_img(msg))?;
        // "exactly that message": what the talker asked for, read through the accessors - not
        // merely whatever the constructor made of it
        let want = grp.want_pn.unwrap_or(built);
        self.p.rt_c12_checked += 1;
        self.sink.check(R::C12_roundtrip, got.len() == 1 && got[0] == want && built == want, || format!("encoded {:?} was fed to the polling scanner; reported between its first part and the closing poll/message: {:?}", want, got));
        Ok(())
    }

    fn deliver(&mut self, b: [u8; 3], repr: u8, part: Option<(u32, u8)>) -> Result<(), Panicked> {
        // ---- ingest through the fallible public path
        let (d1, d2) = api(L::ingest_u7_try_from, || (U7::try_from(b[1]), U7::try_from(b[2])))?;
        let raw = match (d1, d2) {
            (Ok(d1), Ok(d2)) => api(L::ingest_from_bytes, || RawShortMessage::from_bytes((b[0], d1, d2)))?.ok(),
            _ => None,
        };
        let valid = b[0] >= 0x80 && b[1] < 128 && b[2] < 128;
        if raw.is_some() != valid {
            self.p.ingest_mismatch += 1;
        }
        let Some(raw) = raw else {
            self.p.ingest_rejected += 1;
            self.sig.b(0x50);
            return Ok(());
        };
        if !valid {
            // accepted although invalid by MIDI: the harness-side models cannot follow; not ours to judge
            return Ok(());
        }
        self.p.deliveries += 1;
        self.p.repr_used[repr as usize] += 1;
        let ccv = cc(b);
        let is_ch = b[0] < 0xF0;
        let chan = b[0] & 0x0F;
        if is_ch {
            self.p.channels_used[chan as usize] += 1;
        }
        let contrib_cc = matches!(ccv, Some((_, n, _)) if is_cc14_cn(n));
        let contrib_pn = matches!(ccv, Some((_, n, _)) if is_pn_cn(n));
        self.probe_before_feed(b, ccv, is_ch, chan, contrib_cc, contrib_pn);

        // exercise the representation-independent accessors the host uses for routing
        {
            let (ch_acc, ty_cc) = api(L::short_msg_accessors, || {
                with_repr!(raw, b, repr, |m| {
                    let ch = m.channel().map(|c| c.get());
                    let is_cc = m.r#type() == ShortMessageType::ControlChange;
                    let _ = (m.controller_number(), m.control_value(), m.to_bytes(), m.main_category(), m.super_type());
                    (ch, is_cc)
                })
            })?;
            // classification by the crate vs. by the harness: not judged here (that is C02/C03, which
            // are not simulation targets), only counted
            if ch_acc != if is_ch { Some(chan) } else { None } || ty_cc != ccv.is_some() {
                self.p.accessor_mismatch += 1;
            }
            if repr == REPR_STRUCTURED {
                api(L::to_other_from_other, || {
                    let st = raw.to_structured();
                    let back: RawShortMessage = st.to_other();
                    let again = StructuredShortMessage::from_other(&back);
                    again == st
                })?;
            }
        }

        // what a host does with every message and number: full conversion table, factory rebuild,
        // every accessor on both crate representations (C18 surface only; nothing judged)
        if apimon::full_surface() {
            let wide = ((b[0] as u32) << 14) | ((b[2] as u32) << 7) | b[1] as u32;
            let acc = api(L::newtype_conversions, || crate::surface::conversions(b, wide))?;
            std::hint::black_box(acc);
            if (b[1] as u32 + b[2] as u32) % 4 == 0 {
                // a quarter of the deliveries: 72 formatting calls each are not cheap at opt-level 0
                let n = api(L::telemetry_display_fromstr, || crate::surface::format_specs(b))?;
                std::hint::black_box(n);
            }
            if (b[1] as u32 + 3 * b[2] as u32) % 16 == 0 {
                // now and then the host dumps its scanners, whatever state they are in
                let m = &self.main;
                let n = api(L::telemetry_display_fromstr, || crate::surface::debug_dump(&m.cc) + crate::surface::debug_dump(&m.pn) + crate::surface::debug_dump(&m.po))?;
                std::hint::black_box(n);
                self.p.scanner_debug_dumps += 1;
            }
            let same = api(L::factory_ctor, || crate::surface::rebuild_and_read(b))?;
            if !same {
                self.p.factory_rebuild_mismatch += 1;
            }
        }

        // ---- C13.T5: the same feed on copies at jumped clocks
        let mut t5: [Option<[Option<ParameterNumberMessage>; 2]>; 3] = [None, None, None];
        if contrib_pn {
            let jumps = [self.timeout, self.timeout.saturating_add(Duration::from_nanos(1)), Duration::MAX];
            for (k, j) in jumps.iter().enumerate() {
                let mut copy = api(L::scanner_copy, || self.main.po)?;
                clk::set_now(self.now.saturating_add(*j));
                let r = api(L::polling_feed, || with_repr!(raw, b, repr, |m| copy.feed(m)));
                clk::set_now(self.now);
                t5[k] = Some(r?);
                self.p.t5_probes += 1;
            }
        }

        // ---- the real thing
        let before = api(L::scanner_copy, || self.main)?;
        let t0 = self.now;
        clk::set_now(t0);
        let hop = self.take_hop();
        let place = self.take_place();
        let ((r_cc, r_pn, r_po), pan) = feed_main(hop, place, &mut self.main, &raw, b, repr);
        if let Some(l) = pan {
            self.main_panicked = true;
            self.sink.check(R::C18_panic, false, || format!("panic in {} while feeding {:02x?} to the main instance", apimon::LABEL_NAMES[l as usize], b));
        }
        self.span = Span { a: t0, b: clk::now() };
        let i_cc = match r_cc.as_ref() {
            Some(x) => Some(api(L::cc14_accessors, || c14_img(x))?),
            None => None,
        };
        let i_pn = match r_pn.as_ref() {
            Some(x) => Some(api(L::pn_accessors, || pn_img(x))?),
            None => None,
        };
        let i_po: Out2 = api(L::pn_accessors, || [r_po[0].as_ref().map(pn_img), r_po[1].as_ref().map(pn_img)])?;
        if let Some(x) = r_cc.as_ref() {
            self.p.reports_cc14 += 1;
            if apimon::full_surface() {
                let y = *x;
                let same = api(L::telemetry_display_fromstr, || crate::surface::debug_dump(x) > 0 && crate::surface::hash_of(x) == crate::surface::hash_of(&y))?;
                self.p.message_debug_hash_checks += 1;
                if !same {
                    self.p.message_hash_mismatch += 1;
                }
            }
            if !telemetry(x.channel(), x.value(), x.value(), Some(x.msb_controller_number()))? {
                self.p.telemetry_mismatch += 1;
            }
            self.p.telemetry_calls += 1;
        }
        if let Some(x) = r_pn.as_ref() {
            self.p.reports_pn += 1;
            if !telemetry(x.channel(), x.number(), x.value(), None)? {
                self.p.telemetry_mismatch += 1;
            }
            self.p.telemetry_calls += 1;
            if apimon::full_surface() {
                let y = *x;
                let same = api(L::telemetry_display_fromstr, || crate::surface::debug_dump(x) > 0 && crate::surface::hash_of(x) == crate::surface::hash_of(&y))?;
                self.p.message_debug_hash_checks += 1;
                if !same {
                    self.p.message_hash_mismatch += 1;
                }
                let (a, b) = api(L::pn_accessors, || (x.number().get(), x.value().get()))?;
                self.p.garbled_parses += garbled_parse(a, b)? as u64 + 1;
            }
        }
        for x in r_po.iter().flatten() {
            self.p.reports_polling_feed += 1;
            self.w_c14 = true;
            if !telemetry(x.channel(), x.number(), x.value(), None)? {
                self.p.telemetry_mismatch += 1;
            }
            self.p.telemetry_calls += 1;
        }
        for (k, t) in t5.iter().enumerate() {
            if let Some(t) = t {
                let eq = api(L::msg_eq, || *t == r_po)?;
                self.sink.check(R::C13_T5, eq, || format!("feed returned {:?} now but {:?} on a copy whose clock was moved forward (jump #{})", i_po, t, k));
            }
        }

        // ---- C08: exact model
        let e = self.m_cc.feed(b);
        match e {
            None => self.sink.check(R::C08_spurious, i_cc.is_none(), || format!("fed {:02x?}: scanner returned {:?}, model justifies nothing", b, i_cc)),
            Some(e) => {
                self.w_c08_just = true;
                self.sink.check(R::C08_missing, i_cc.is_some(), || format!("fed {:02x?}: scanner returned nothing, model justifies {:?}", b, e));
                if let Some(g) = i_cc {
                    self.sink.check(R::C08_fields, g == e, || format!("fed {:02x?}: scanner returned {:?}, model justifies {:?}", b, g, e));
                }
            }
        }
        if e.is_none() && matches!(ccv, Some((_, n, _)) if (32..64).contains(&n)) {
            self.w_c08_unjust = true;
        }
        // ---- C11: exact model
        if let Some((c, n, _)) = ccv {
            if matches!(n, 6 | 96 | 97) {
                let h = self.m_pn.ch[c as usize];
                if h.msb.is_none() || h.lsb.is_none() {
                    self.w_c11_missing_half = true;
                }
            }
        }
        let e = self.m_pn.feed(b);
        match e {
            None => self.sink.check(R::C11_spurious, i_pn.is_none(), || format!("fed {:02x?}: scanner returned {:?}, model justifies nothing", b, i_pn)),
            Some(e) => {
                self.w_c11_just = true;
                self.sink.check(R::C11_missing, i_pn.is_some(), || format!("fed {:02x?}: scanner returned nothing, model justifies {:?}", b, e));
                if let Some(g) = i_pn {
                    self.sink.check(R::C11_fields, g == e, || format!("fed {:02x?}: scanner returned {:?}, model justifies {:?}", b, g, e));
                }
            }
        }
        // ---- C12/C13/C14 observer
        if let (true, Some((c, n, v))) = (contrib_pn, ccv) {
            let class_before = self.obs.on_feed(c, n, v, i_po, self.span, &mut self.sink);
            if class_before != 0 && (i_po[0].is_some() || self.obs.ch[c as usize].st.class() != 0) {
                self.w_c12 = true;
            }
        }

        // ---- C15
        let solo_repr = (repr + 1) % N_REPR;
        if is_ch {
            for x in [i_cc.map(|x| x.ch), i_pn.map(|x| x.ch), i_po[0].map(|x| x.ch), i_po[1].map(|x| x.ch)].iter().flatten() {
                self.sink.check(R::C15_label, *x == chan, || format!("feed on channel {} returned a message labelled channel {}", chan, x));
            }
            self.rewind();
            let s = &mut self.solo[chan as usize];
            let (s_cc, s_pn, s_po) = feed_scn(s, &raw, b, solo_repr)?;
            let (a, bb, c) = api(L::msg_eq, || (s_cc == r_cc, s_pn == r_pn, s_po == r_po))?;
            self.sink.check(R::C15_solo_feed, a && bb && c, || format!("fed {:02x?}: main returned cc14 {:?} / pn {:?} / polling {:?}; a scanner fed only channel {} returned {:?} / {:?} / {:?}", b, i_cc, i_pn, i_po, chan, s_cc, s_pn, s_po));
        } else {
            let m = &self.main;
            let same = api(L::scanner_eq, || before.cc == m.cc && before.pn == m.pn && before.po == m.po)?;
            let silent = r_cc.is_none() && r_pn.is_none() && r_po == [None, None];
            self.sink.check(R::C15_system, same && silent, || format!("system message {:02x?}: reported something: {}, state unchanged: {}", b, !silent, same));
        }

        // ---- C16
        if let Some((_, n, _)) = ccv {
            self.check_predicates(n)?;
        }
        let twin_repr = (repr + 2) % N_REPR;
        let m = &self.main;
        if contrib_cc {
            let t = &mut self.twin;
            let rt = api_soft(L::cc14_feed, None, || with_repr!(raw, b, twin_repr, |m| t.cc.feed(m)))?;
            let eq = api(L::msg_eq, || rt == r_cc)?;
            self.sink.check(R::C16_twin, eq, || format!("fed {:02x?}: cc14 main returned {:?}, twin fed only contributing messages {:?}", b, r_cc, rt));
        } else {
            self.sink.check(R::C16_silent, r_cc.is_none(), || format!("cc14 scanner reported {:?} for non-contributing {:02x?}", i_cc, b));
            let same = api(L::scanner_eq, || before.cc == m.cc)?;
            self.sink.check(R::C16_state, same, || format!("cc14 scanner state changed by non-contributing {:02x?}", b));
        }
        if contrib_pn {
            self.rewind();
            let t = &mut self.twin;
            let rt1 = api_soft(L::pn_feed, None, || with_repr!(raw, b, twin_repr, |m| t.pn.feed(m)))?;
            let rt2 = api_soft(L::polling_feed, [None, None], || with_repr!(raw, b, twin_repr, |m| t.po.feed(m)))?;
            let (e1, e2) = api(L::msg_eq, || (rt1 == r_pn, rt2 == r_po))?;
            self.sink.check(R::C16_twin, e1, || format!("fed {:02x?}: (N)RPN main returned {:?}, twin fed only contributing messages {:?}", b, r_pn, rt1));
            self.sink.check(R::C16_twin, e2, || format!("fed {:02x?}: polling main returned {:?}, twin fed only contributing messages {:?}", b, r_po, rt2));
        } else {
            self.sink.check(R::C16_silent, r_pn.is_none() && r_po == [None, None], || format!("(N)RPN scanners reported {:?} / {:?} for non-contributing {:02x?}", i_pn, i_po, b));
            let (s1, s2) = api(L::scanner_eq, || (before.pn == m.pn, before.po == m.po))?;
            self.sink.check(R::C16_state, s1 && s2, || format!("(N)RPN scanner state changed by non-contributing {:02x?} (non-polling unchanged: {}, polling unchanged: {})", b, s1, s2));
        }

        // ---- C17: fresh twin and lockstep copies
        if let Some(f) = self.fresh.as_mut() {
            self.p.fresh_twin_steps += 1;
            clk::set_now(self.span.a);
            let (f_cc, f_pn, f_po) = feed_scn(f, &raw, b, (repr + 3) % N_REPR)?;
            let eq = api(L::msg_eq, || f_cc == r_cc && f_pn == r_pn && f_po == r_po)?;
            self.sink.check(R::C17_fresh, eq, || format!("fed {:02x?}: reset scanner returned {:?} / {:?} / {:?}, scanner created with new() at the reset {:?} / {:?} / {:?}", b, r_cc, r_pn, r_po, f_cc, f_pn, f_po));
            if self.w_c17_reset_inflight {
                self.w_c17 = true;
            }
        }
        for i in 0..self.forks.len() {
            clk::set_now(self.span.a);
            let f = &mut self.forks[i];
            let (f_cc, f_pn, f_po) = feed_scn(&mut f.copy, &raw, b, repr)?;
            let eq = api(L::msg_eq, || f_cc == r_cc && f_pn == r_pn && f_po == r_po)?;
            self.sink.check(R::C17_copy, eq, || format!("fed {:02x?}: original returned {:?} / {:?} / {:?}, lockstep copy {:?} / {:?} / {:?}", b, r_cc, r_pn, r_po, f_cc, f_pn, f_po));
        }
        self.tick_forks()?;

        if self.restored {
            self.w_c17 = true;
        }
        clk::set_now(self.span.b);
        // ---- round-trip trackers
        self.track_c07(part, &r_cc)?;
        self.track_c10(part, &r_pn)?;
        if let (true, Some((c, n, _))) = (contrib_pn, ccv) {
            self.track_c12_feed(c, n, part, i_po)?;
        }
        Ok(())
    }

    #[allow(clippy::too_many_arguments)]
    fn probe_before_feed(&mut self, b: [u8; 3], ccv: Option<(u8, u8, u8)>, is_ch: bool, chan: u8, contrib_cc: bool, contrib_pn: bool) {
        // signature token: event class + channel
        let class: u8 = match ccv {
            Some((_, n, _)) => match n {
                99 => 1,
                98 => 2,
                101 => 3,
                100 => 4,
                6 => 5,
                38 => 6,
                96 => 7,
                97 => 8,
                0..=31 => 9,
                32..=63 => 10,
                _ => 11,
            },
            None if is_ch => 12,
            None => 13,
        };
        self.sig.b(0x60);
        self.sig.b(class);
        self.sig.b(if is_ch { chan } else { 0xff });
        let inflight = |e: &Exec, c: usize| e.m_cc.last[c].is_some() || e.obs.ch[c].in_flight() || e.m_pn.ch[c].msb.is_some() || e.m_pn.ch[c].lsb.is_some() || e.m_pn.ch[c].v38.is_some();
        // C08 cells
        if is_ch {
            let c = chan as usize;
            let st = self.m_cc.last[c].is_some() as usize;
            let evc = match ccv {
                Some((_, n, _)) if n < 32 => 0,
                Some((_, n, _)) if n < 64 => {
                    if matches!(self.m_cc.last[c], Some((m, _)) if m + 32 == n) {
                        1
                    } else {
                        2
                    }
                }
                Some(_) => 3,
                None => 4,
            };
            self.p.c08_cells[st * 7 + evc] += 1;
            // C11 cells
            let h = self.m_pn.ch[c];
            let halves = match (h.msb.is_some(), h.lsb.is_some()) {
                (false, false) => 0,
                (true, false) => 1,
                (false, true) => 2,
                (true, true) => 3,
            };
            let e11 = match ccv {
                Some((_, 99 | 101, _)) => 0,
                Some((_, 98 | 100, _)) => 1,
                Some((_, 6, _)) => 2,
                Some((_, 38, _)) => 3,
                Some((_, 96, _)) => 4,
                Some((_, 97, _)) => 5,
                _ => 6,
            };
            self.p.c11_cells[halves * 16 + (h.v38.is_some() as usize) * 8 + e11] += 1;
            // recogniser cells
            let rc = self.obs.ch[c].st.class();
            let e12 = match ccv {
                Some((_, 99 | 101, _)) => 0,
                Some((_, 98 | 100, _)) => 1,
                Some((_, 6, _)) => 2,
                Some((_, 38, _)) => 3,
                Some((_, 96 | 97, _)) => 4,
                _ => 7,
            };
            self.p.rec_cells[rc * 9 + e12] += 1;
            // channel pair matrix: a had in-flight state when a message for b was delivered
            let mut others = 0;
            for a in 0..16 {
                if a != c && inflight(self, a) {
                    self.p.pair_matrix[a * 16 + c] += 1;
                    others += 1;
                }
            }
            if others > 0 && inflight(self, c) {
                self.w_c15 = true;
            }
            // non-contributing message landing on in-flight state
            if inflight(self, c) {
                if !contrib_cc && !contrib_pn {
                    self.p.status_inflight[(b[0] - 0x80) as usize] += 1;
                    self.w_c16 = true;
                }
                if let Some((_, n, _)) = ccv {
                    if !contrib_cc && self.m_cc.last[c].is_some() {
                        self.p.cn_inflight_cc14[n as usize] += 1;
                        self.w_c16 = true;
                    }
                    if !contrib_pn && (self.obs.ch[c].in_flight() || h.msb.is_some() || h.lsb.is_some()) {
                        self.p.cn_inflight_pn[n as usize] += 1;
                        self.w_c16 = true;
                    }
                }
            }
        } else {
            let any = (0..16).any(|c| inflight(self, c));
            for c in 0..16 {
                self.p.c08_cells[(self.m_cc.last[c].is_some() as usize) * 7 + 5] += 1;
            }
            if any {
                self.p.status_inflight[(b[0] - 0x80) as usize] += 1;
                self.w_c15 = true;
                self.w_c16 = true;
            }
        }
    }

    fn track_c07(&mut self, part: Option<(u32, u8)>, r_cc: &Option<ControlChange14BitMessage>) -> Result<(), Panicked> {
        let mut next = None;
        if let Some((g, i)) = part {
            if let Some(grp) = self.group(g) {
                if let (GroupMsg::Cc14(msg), 2) = (&grp.msg, grp.parts.len()) {
                    let msg = *msg;
                    if i == 1 {
                        if let Some((g0, 0, first_none)) = self.cc_prev {
                            if g0 == g {
                                let eq = api(L::msg_eq, || *r_cc == Some(msg))?;
                                let want = api(L::cc14_accessors, || c14_img(&msg))?;
                                // not only `==` (which a change could weaken): field by field, through the accessors
                                let got = match r_cc.as_ref() {
                                    Some(x) => Some(api(L::cc14_accessors, || c14_img(x))?),
                                    None => None,
                                };
                                self.p.rt_c07_checked += 1;
                                self.sink.check(R::C07_roundtrip, first_none && eq && got == Some(want), || format!("encoded {:?}: scanner returned something for the first part: {}, second part returned {:?}", want, !first_none, r_cc));
                            }
                        } else {
                            self.p.rt_c07_skipped += 1;
                        }
                    }
                    next = Some((g, i, r_cc.is_none()));
                }
            }
        }
        if next.is_none() {
            if let Some((_, 0, _)) = self.cc_prev {
                self.p.rt_c07_skipped += 1;
            }
        }
        self.cc_prev = next;
        Ok(())
    }

    fn track_c10(&mut self, part: Option<(u32, u8)>, r_pn: &Option<ParameterNumberMessage>) -> Result<(), Panicked> {
        let mut next = PnSeq::None;
        if let Some((g, i)) = part {
            if let Some(grp) = self.group(g) {
                if let GroupMsg::Pn(msg) = &grp.msg {
                    let msg = *msg;
                    let n = grp.parts.len() as u8;
                    let fourteen = grp.kind == K_14BIT;
                    let judged = !fourteen || grp.order == 1;
                    let key = Chain { ch: grp.ch, num: grp.num, reg: grp.reg, fourteen };
                    let mut rule = None;
                    let mut chain = None;
                    if i == 0 && judged {
                        rule = Some(R::C10_roundtrip);
                    } else if let PnSeq::In { g: g0, next: nx, chain: ch0 } = self.pn_seq {
                        if g0 == g && nx == i {
                            rule = Some(if ch0.is_some() { R::C10_running } else { R::C10_roundtrip });
                            chain = ch0;
                        }
                    } else if let PnSeq::Between { chain: ch0 } = self.pn_seq {
                        if i == 2 && judged && ch0 == key {
                            rule = Some(R::C10_running);
                            chain = Some(ch0);
                        }
                    }
                    if let Some(rule) = rule {
                        let last = i + 1 == n;
                        let asked = grp.want_pn;
                        let ok = if last {
                            let eq = api(L::msg_eq, || *r_pn == Some(msg))?;
                            let img = match r_pn.as_ref() {
                                Some(x) => Some(api(L::pn_accessors, || pn_img(x))?),
                                None => None,
                            };
                            eq && img == asked
                        } else {
                            r_pn.is_none()
                        };
                        if last {
                            if rule == R::C10_running {
                                self.p.rt_c10_running_checked += 1;
                            } else {
                                self.p.rt_c10_checked += 1;
                            }
                        }
                        let want = api(L::pn_accessors, || pn_img(&msg))?;
                        let lsb_first = grp_order_name(part, self);
                        self.sink.check(rule, ok, || format!("encoded {:?} ({} parts, {}): part {} returned {:?}, want {}", want, n, if lsb_first { "lsb_first" } else { "msb_first" }, i, r_pn, if last { "the original message" } else { "nothing" }));
                        next = if last { PnSeq::Between { chain: key } } else { PnSeq::In { g, next: i + 1, chain } };
                    }
                }
            }
        }
        if next == PnSeq::None && matches!(self.pn_seq, PnSeq::In { .. }) {
            self.p.rt_c10_skipped += 1;
        }
        self.pn_seq = next;
        Ok(())
    }

    fn track_c12_feed(&mut self, c: u8, cn: u8, part: Option<(u32, u8)>, out: Out2) -> Result<(), Panicked> {
        let now = self.span;
        // which group part is this, if any?
        let mut gp: Option<(u32, u8, u8, u8)> = None; // g, i, n, kind
        if let Some((g, i)) = part {
            if let Some(grp) = self.group(g) {
                if let GroupMsg::Pn(_) = &grp.msg {
                    if grp.ch == c {
                        gp = Some((g, i, grp.parts.len() as u8, grp.kind));
                    }
                }
            }
        }
        let mut judge: Option<(u32, Vec<Pn>)> = None;
        let mut keep = false;
        if let Some(t) = self.po_track[c as usize].as_mut() {
            match t.phase.clone() {
                PoPhase::In { next, .. } => {
                    if let Some((g, i, n, kind)) = gp {
                        if g == t.g && i == next {
                            for x in out.iter().flatten() {
                                t.got.push(*x);
                            }
                            if i + 1 == n {
                                if kind == K_7BIT {
                                    t.phase = PoPhase::Waiting { since: now };
                                    keep = true;
                                } else {
                                    judge = Some((t.g, std::mem::take(&mut t.got)));
                                }
                            } else {
                                let unit_at = if n == 4 && i == 2 { Some(now) } else { None };
                                t.phase = PoPhase::In { next: i + 1, unit_at };
                                keep = true;
                            }
                        }
                    }
                    if !keep && judge.is_none() {
                        self.p.rt_c12_abandoned += 1;
                    }
                }
                PoPhase::Waiting { .. } => {
                    if cn == 38 {
                        // MSB then LSB: a different documented sentence (14-bit), not ours to judge
                        self.p.rt_c12_abandoned += 1;
                    } else {
                        if let Some(x) = out[0] {
                            t.got.push(x);
                        }
                        judge = Some((t.g, std::mem::take(&mut t.got)));
                    }
                }
            }
            if !keep {
                self.po_track[c as usize] = None;
            }
        }
        if let Some((g, got)) = judge {
            self.judge_c12(g, &got)?;
        }
        // a first part starts a new track (its own outputs belong to earlier traffic)
        if let Some((g, 0, _, _)) = gp {
            self.po_track[c as usize] = Some(PoTrack { g, phase: PoPhase::In { next: 1, unit_at: None }, got: Vec::new() });
        }
        Ok(())
    }
}

fn grp_order_name(part: Option<(u32, u8)>, e: &Exec) -> bool {
    part.and_then(|(g, _)| e.group(g)).map(|g| g.order == 1).unwrap_or(false)
}
