//! The process environment behind the seam. A library call that consults an environment variable
//! (a debug switch, a tuning knob, added by a later change) would make behaviour depend on
//! something no trace records. This module interposes `getenv` for the whole process, the same way
//! `simclock` interposes `clock_gettime`: while the calling thread is inside an API region the
//! answer is decided by the run's `env_mode` (every variable unset / set to "0" / set to "1" / set
//! but empty), outside it is the real environment (std's own lookups of RUST_BACKTRACE,
//! RUST_MIN_STACK and the like), found by walking `environ` directly.
//!
//! Linux only; elsewhere the module compiles to the knob alone and lookups stay real.

use std::cell::Cell;

thread_local! {
    static MODE: Cell<u8> = const { Cell::new(0) };
    static READS: Cell<u64> = const { Cell::new(0) };
}

pub const N_MODES: u8 = 4;
pub const MODE_NAMES: [&str; 4] = ["every variable unset", "every variable set to \"0\"", "every variable set to \"1\"", "every variable set but empty"];

pub fn set_mode(m: u8) {
    MODE.with(|c| c.set(m % N_MODES));
}
pub fn mode() -> u8 {
    MODE.with(|c| c.get())
}
/// Environment lookups that reached the C interface from inside API regions on this thread.
pub fn reads() -> u64 {
    READS.with(|c| c.get())
}

#[cfg(target_os = "linux")]
mod imp {
    use super::*;
    use std::os::raw::c_char;

    extern "C" {
        static environ: *const *const c_char;
    }

    static ZERO: [u8; 2] = *b"0\0";
    static ONE: [u8; 2] = *b"1\0";
    static EMPTY: [u8; 1] = *b"\0";

    unsafe fn real_getenv(name: *const c_char) -> *mut c_char {
        if name.is_null() || environ.is_null() {
            return std::ptr::null_mut();
        }
        let mut n = 0usize;
        while *name.add(n) != 0 {
            if *name.add(n) == b'=' as c_char {
                return std::ptr::null_mut();
            }
            n += 1;
        }
        if n == 0 {
            return std::ptr::null_mut();
        }
        let mut p = environ;
        while !(*p).is_null() {
            let e = *p;
            let mut i = 0usize;
            while i < n && *e.add(i) != 0 && *e.add(i) == *name.add(i) {
                i += 1;
            }
            if i == n && *e.add(n) == b'=' as c_char {
                return e.add(n + 1) as *mut c_char;
            }
            p = p.add(1);
        }
        std::ptr::null_mut()
    }

    /// # Safety
    /// Same contract as the C function it replaces.
    #[no_mangle]
    pub unsafe extern "C" fn getenv(name: *const c_char) -> *mut c_char {
        if !crate::apimon::in_api() {
            return real_getenv(name);
        }
        let _ = READS.try_with(|c| c.set(c.get() + 1));
        match MODE.try_with(|c| c.get()).unwrap_or(0) {
            1 => ZERO.as_ptr() as *mut c_char,
            2 => ONE.as_ptr() as *mut c_char,
            3 => EMPTY.as_ptr() as *mut c_char,
            _ => std::ptr::null_mut(),
        }
    }
}
