//! Decision trace: what the simulator did to the system under test. A trace is the replay file:
//! executing it needs no PRNG, it is a pure function of the file and the code.

use crate::json::J;

/// `Duration::MAX` in nanoseconds.
pub const DUR_MAX_NS: u128 = (u64::MAX as u128) * 1_000_000_000 + 999_999_999;

pub fn dur(ns: u128) -> std::time::Duration {
    let ns = ns.min(DUR_MAX_NS);
    std::time::Duration::new((ns / 1_000_000_000) as u64, (ns % 1_000_000_000) as u32)
}

/// Kinds for `EncPn::kind`.
pub const K_7BIT: u8 = 0;
pub const K_14BIT: u8 = 1;
pub const K_INC: u8 = 2;
pub const K_DEC: u8 = 3;

/// Representations for `repr`: which `ShortMessage` implementation is handed to `feed`.
pub const REPR_RAW: u8 = 0;
pub const REPR_STRUCTURED: u8 = 1;
pub const REPR_FOREIGN: u8 = 2; // harness type implementing only the three byte getters
#[allow(dead_code)]
pub const REPR_FOREIGN_TB: u8 = 3; // harness type that also overrides to_bytes
pub const N_REPR: u8 = 4;

#[derive(Clone, Debug, PartialEq, Eq, Hash)]
pub enum Ev {
    /// Real `ControlChange14BitMessage::new` + encoder; parts kept as group g.
    EncCc14 { g: u32, ch: u8, cn: u8, val: u16, fac: u8 },
    /// Real `ParameterNumberMessage` constructor + encoder; parts kept as group g.
    /// order: 0 = MsbFirst, 1 = LsbFirst. fac: 0 = RawShortMessage, 1 = StructuredShortMessage.
    EncPn { g: u32, ch: u8, num: u16, val: u16, reg: bool, kind: u8, order: u8, fac: u8 },
    /// Deliver part i of group g, bytes as the real encoder produced them, XORed with x
    /// (x != 0: corrupted on the wire).
    Part { g: u32, i: u8, repr: u8, x: [u8; 3] },
    /// Deliver a literal short message (bytes may be invalid: rejected at ingest).
    Feed { b: [u8; 3], repr: u8 },
    Poll { ch: u8 },
    Adv { ns: u128 },
    Reset,
    /// Reset storm: reset() called n times in a row (compact form; n up to 70000).
    Resets { n: u32 },
    /// Soak loop: the k events before this one are executed n more times (nested repeats are
    /// skipped). Leaks and counters need many rounds of the same short cycle.
    Repeat { k: u8, n: u16 },
    /// Copy-semantics check: a copy runs in lockstep for k events; another copy is fed `burst`
    /// at once while the original must stay unchanged.
    Fork { k: u8, burst: Vec<[u8; 3]> },
    /// The host checkpoints all scanners (they are `Copy`) ...
    Snapshot,
    /// ... and later restores the checkpoint: "crash and restart from durable state". The clock
    /// keeps running in between.
    Restore,
    /// The scanners are `Send`: each of the next n calls on the main instance (feed, poll, reset)
    /// runs on another OS thread than the one before (a fresh thread per call; the caller waits).
    Hop { n: u8 },
    /// Each of the next n calls on the main instance is made from a destructor that runs while the
    /// thread unwinds from an unrelated panic (`std::thread::panicking()` is true inside the call).
    Unwinding { n: u8 },
    /// Each of the next n calls on the main instance is made on a copy of the scanner that lives
    /// at an address congruent to `offset` modulo 8 (and is copied back afterwards).
    Misplaced { n: u8, offset: u8 },
    /// A message object that contradicts itself is fed to the main instance: its byte getters say
    /// `raw`, its `to_structured()` says `st`. No reference model can follow; nothing is judged
    /// until the next reset (after which everything must be as new) or restore.
    /// `fickle`: instead, every byte getter answers `raw` on its first call and `st` on later calls
    /// (an impure getter), and `to_structured()` is the trait's default.
    Liar { raw: [u8; 3], st: [u8; 3], fickle: bool },
    /// A third-party message object whose getter `which` (0 status byte, 1 data byte 1, 2 data
    /// byte 2) panics - a corrupt device buffer behind a checked accessor - is fed to the main
    /// instance; the host catches the panic and carries on. No message was delivered.
    FeedAbort { b: [u8; 3], which: u8 },
    /// Marathon: a cycle of one to three messages that can never justify a report (parameter-number
    /// bytes, 14-bit-CC MSB controllers other than 6, non-contributing traffic) is delivered to
    /// every instance n more times (n up to 2^24 + 2). Two rounds before and one round after go
    /// through the ordinary delivery with every observer; the rounds in between only check that
    /// every instance answers nothing.
    Bulk { n: u32, cycle: Vec<[u8; 3]> },
}

#[derive(Clone, Debug, PartialEq, Eq, Hash)]
pub struct Trace {
    pub timeout_ns: u128,
    /// every clock read by the library advances the simulated clock by this much afterwards
    /// (time passes inside calls); 0 = the clock only moves between calls
    pub read_step_ns: u128,
    /// the host creates its scanners with `Default::default()` instead of `new(..)` (the polling
    /// scanner only when the timeout is zero, where the two must be the same)
    pub ctor_default: bool,
    /// what the process environment looks like to library code (see `simenv`): 0 = every variable
    /// unset, 1 = every variable "0", 2 = every variable "1", 3 = every variable empty
    pub env_mode: u8,
    /// writes to stdout/stderr made by library code fail with EIO (see `simio`) instead of being
    /// swallowed
    pub stdio_fails: bool,
    pub events: Vec<Ev>,
}

fn ji<T: Into<i128>>(x: T) -> J {
    J::Int(x.into())
}

impl Ev {
    pub fn to_json(&self) -> J {
        match self {
            Ev::EncCc14 { g, ch, cn, val, fac } => J::arr([J::s("enc_cc14"), ji(*g), ji(*ch), ji(*cn), ji(*val), ji(*fac)]),
            Ev::EncPn { g, ch, num, val, reg, kind, order, fac } => J::arr([
                J::s("enc_pn"),
                ji(*g),
                ji(*ch),
                ji(*num),
                ji(*val),
                J::Bool(*reg),
                J::s(match *kind {
                    K_7BIT => "7bit",
                    K_14BIT => "14bit",
                    K_INC => "inc",
                    _ => "dec",
                }),
                J::s(if *order == 0 { "msb_first" } else { "lsb_first" }),
                ji(*fac),
            ]),
            Ev::Part { g, i, repr, x } => {
                if *x == [0, 0, 0] {
                    J::arr([J::s("part"), ji(*g), ji(*i), ji(*repr)])
                } else {
                    J::arr([J::s("part"), ji(*g), ji(*i), ji(*repr), ji(x[0]), ji(x[1]), ji(x[2])])
                }
            }
            Ev::Feed { b, repr } => J::arr([J::s("feed"), ji(b[0]), ji(b[1]), ji(b[2]), ji(*repr)]),
            Ev::Poll { ch } => J::arr([J::s("poll"), ji(*ch)]),
            Ev::Adv { ns } => J::arr([J::s("adv"), J::Str(ns.to_string())]),
            Ev::Reset => J::arr([J::s("reset")]),
            Ev::Resets { n } => J::arr([J::s("resets"), ji(*n)]),
            Ev::Repeat { k, n } => J::arr([J::s("repeat"), ji(*k), ji(*n)]),
            Ev::Snapshot => J::arr([J::s("snapshot")]),
            Ev::Restore => J::arr([J::s("restore")]),
            Ev::Hop { n } => J::arr([J::s("hop"), ji(*n)]),
            Ev::Unwinding { n } => J::arr([J::s("unwinding"), ji(*n)]),
            Ev::Misplaced { n, offset } => J::arr([J::s("misplaced"), ji(*n), ji(*offset)]),
            Ev::Liar { raw, st, fickle } => J::arr([J::s("feed_liar"), ji(raw[0]), ji(raw[1]), ji(raw[2]), ji(st[0]), ji(st[1]), ji(st[2]), ji(*fickle as u8)]),
            Ev::FeedAbort { b, which } => J::arr([J::s("feed_abort"), ji(b[0]), ji(b[1]), ji(b[2]), ji(*which)]),
            Ev::Bulk { n, cycle } => J::arr([J::s("bulk"), ji(*n), J::arr(cycle.iter().map(|b| J::arr([ji(b[0]), ji(b[1]), ji(b[2])])))]),
            Ev::Fork { k, burst } => J::arr([
                J::s("fork"),
                ji(*k),
                J::arr(burst.iter().map(|b| J::arr([ji(b[0]), ji(b[1]), ji(b[2])]))),
            ]),
        }
    }

    pub fn from_json(j: &J) -> Result<Ev, String> {
        let a = j.as_arr().ok_or("event is not an array")?;
        let tag = a.first().and_then(|t| t.as_str()).ok_or("event without tag")?;
        let n = |i: usize, max: i128| -> Result<i128, String> {
            let v = a.get(i).and_then(|x| x.as_int()).ok_or(format!("{}: missing field {}", tag, i))?;
            if v < 0 || v > max {
                return Err(format!("{}: field {} out of range: {}", tag, i, v));
            }
            Ok(v)
        };
        Ok(match tag {
            "enc_cc14" => Ev::EncCc14 { g: n(1, u32::MAX as i128)? as u32, ch: n(2, 15)? as u8, cn: n(3, 127)? as u8, val: n(4, 16383)? as u16, fac: n(5, 1)? as u8 },
            "enc_pn" => {
                let kind = match a.get(6).and_then(|x| x.as_str()).ok_or("enc_pn: kind")? {
                    "7bit" => K_7BIT,
                    "14bit" => K_14BIT,
                    "inc" => K_INC,
                    "dec" => K_DEC,
                    k => return Err(format!("enc_pn: unknown kind {}", k)),
                };
                let order = match a.get(7).and_then(|x| x.as_str()).ok_or("enc_pn: order")? {
                    "msb_first" => 0,
                    "lsb_first" => 1,
                    k => return Err(format!("enc_pn: unknown order {}", k)),
                };
                let reg = match a.get(5) {
                    Some(J::Bool(b)) => *b,
                    _ => return Err("enc_pn: registered flag".into()),
                };
                let vmax = if kind == K_14BIT { 16383 } else { 127 };
                Ev::EncPn { g: n(1, u32::MAX as i128)? as u32, ch: n(2, 15)? as u8, num: n(3, 16383)? as u16, val: n(4, vmax)? as u16, reg, kind, order, fac: n(8, 1)? as u8 }
            }
            "part" => {
                let x = if a.len() >= 7 { [n(4, 255)? as u8, n(5, 255)? as u8, n(6, 255)? as u8] } else { [0, 0, 0] };
                Ev::Part { g: n(1, u32::MAX as i128)? as u32, i: n(2, 3)? as u8, repr: n(3, (N_REPR - 1) as i128)? as u8, x }
            }
            "feed" => Ev::Feed { b: [n(1, 255)? as u8, n(2, 255)? as u8, n(3, 255)? as u8], repr: n(4, (N_REPR - 1) as i128)? as u8 },
            "poll" => Ev::Poll { ch: n(1, 15)? as u8 },
            "adv" => {
                let v = a.get(1).and_then(|x| x.as_int()).ok_or("adv: nanos")?;
                if v < 0 {
                    return Err("adv: negative".into());
                }
                Ev::Adv { ns: (v as u128).min(DUR_MAX_NS) }
            }
            "reset" => Ev::Reset,
            "resets" => Ev::Resets { n: n(1, 70000)? as u32 },
            "repeat" => Ev::Repeat { k: n(1, 16)? as u8, n: n(2, 65535)? as u16 },
            "snapshot" => Ev::Snapshot,
            "restore" => Ev::Restore,
            "hop" => Ev::Hop { n: n(1, 255)? as u8 },
            "unwinding" => Ev::Unwinding { n: n(1, 255)? as u8 },
            "misplaced" => Ev::Misplaced { n: n(1, 255)? as u8, offset: n(2, 7)? as u8 },
            "feed_liar" => Ev::Liar { raw: [n(1, 255)? as u8, n(2, 255)? as u8, n(3, 255)? as u8], st: [n(4, 255)? as u8, n(5, 255)? as u8, n(6, 255)? as u8], fickle: a.len() > 7 && n(7, 1)? == 1 },
            "feed_abort" => Ev::FeedAbort { b: [n(1, 255)? as u8, n(2, 255)? as u8, n(3, 255)? as u8], which: n(4, 2)? as u8 },
            "bulk" => {
                let mut cycle = Vec::new();
                for b in a.get(2).and_then(|x| x.as_arr()).ok_or("bulk: cycle")? {
                    let t = b.as_arr().ok_or("bulk: cycle item")?;
                    let g = |i: usize| -> Result<u8, String> {
                        let v = t.get(i).and_then(|x| x.as_int()).ok_or("bulk: byte")?;
                        if !(0..=255).contains(&v) {
                            return Err("bulk: byte range".into());
                        }
                        Ok(v as u8)
                    };
                    cycle.push([g(0)?, g(1)?, g(2)?]);
                }
                if cycle.len() > 3 {
                    return Err("bulk: cycle longer than 3".into());
                }
                Ev::Bulk { n: n(1, (1 << 24) + 2)? as u32, cycle }
            }
            "fork" => {
                let mut burst = Vec::new();
                for b in a.get(2).and_then(|x| x.as_arr()).ok_or("fork: burst")? {
                    let t = b.as_arr().ok_or("fork: burst item")?;
                    let g = |i: usize| -> Result<u8, String> {
                        let v = t.get(i).and_then(|x| x.as_int()).ok_or("fork: byte")?;
                        if !(0..=255).contains(&v) {
                            return Err("fork: byte range".into());
                        }
                        Ok(v as u8)
                    };
                    burst.push([g(0)?, g(1)?, g(2)?]);
                }
                Ev::Fork { k: n(1, 255)? as u8, burst }
            }
            t => return Err(format!("unknown event tag {}", t)),
        })
    }
}

impl Trace {
    pub fn to_json(&self) -> J {
        J::obj().set("timeout_ns", J::Str(self.timeout_ns.to_string())).set("read_step_ns", J::Str(self.read_step_ns.to_string())).set("ctor_default", J::Bool(self.ctor_default)).set("env_mode", J::u(self.env_mode as u64)).set("stdio_fails", J::Bool(self.stdio_fails)).set("events", J::Arr(self.events.iter().map(|e| e.to_json()).collect()))
    }

    pub fn from_json(j: &J) -> Result<Trace, String> {
        let t = j.get("timeout_ns").and_then(|x| x.as_int()).ok_or("trace: timeout_ns")?;
        if t < 0 {
            return Err("trace: negative timeout".into());
        }
        let mut events = Vec::new();
        for e in j.get("events").and_then(|x| x.as_arr()).ok_or("trace: events")? {
            events.push(Ev::from_json(e)?);
        }
        let rs = match j.get("read_step_ns") {
            Some(x) => x.as_int().ok_or("trace: read_step_ns")?,
            None => 0,
        };
        if rs < 0 {
            return Err("trace: negative read step".into());
        }
        let ctor_default = matches!(j.get("ctor_default"), Some(J::Bool(true)));
        let env_mode = match j.get("env_mode") {
            Some(x) => {
                let v = x.as_int().ok_or("trace: env_mode")?;
                if !(0..=3).contains(&v) {
                    return Err("trace: env_mode range".into());
                }
                v as u8
            }
            None => 0,
        };
        Ok(Trace { timeout_ns: (t as u128).min(DUR_MAX_NS), read_step_ns: (rs as u128).min(DUR_MAX_NS), ctor_default, env_mode, stdio_fails: matches!(j.get("stdio_fails"), Some(J::Bool(true))), events })
    }

    /// 64-bit FNV-1a over a canonical encoding; identifies a decision trace.
    pub fn hash64(&self) -> u64 {
        let mut h = Fnv::new();
        h.u128(self.timeout_ns);
        h.u128(self.read_step_ns);
        h.b(self.ctor_default as u8);
        h.b(self.env_mode);
        h.b(self.stdio_fails as u8);
        for e in &self.events {
            match e {
                Ev::EncCc14 { g, ch, cn, val, fac } => {
                    h.b(1);
                    h.u64(*g as u64);
                    h.b(*ch);
                    h.b(*cn);
                    h.u64(*val as u64);
                    h.b(*fac);
                }
                Ev::EncPn { g, ch, num, val, reg, kind, order, fac } => {
                    h.b(2);
                    h.u64(*g as u64);
                    h.b(*ch);
                    h.u64(*num as u64);
                    h.u64(*val as u64);
                    h.b(*reg as u8);
                    h.b(*kind);
                    h.b(*order);
                    h.b(*fac);
                }
                Ev::Part { g, i, repr, x } => {
                    h.b(3);
                    h.u64(*g as u64);
                    h.b(*i);
                    h.b(*repr);
                    h.b(x[0]);
                    h.b(x[1]);
                    h.b(x[2]);
                }
                Ev::Feed { b, repr } => {
                    h.b(4);
                    h.b(b[0]);
                    h.b(b[1]);
                    h.b(b[2]);
                    h.b(*repr);
                }
                Ev::Poll { ch } => {
                    h.b(5);
                    h.b(*ch);
                }
                Ev::Adv { ns } => {
                    h.b(6);
                    h.u128(*ns);
                }
                Ev::Reset => h.b(7),
                Ev::Resets { n } => {
                    h.b(11);
                    h.u64(*n as u64);
                }
                Ev::Repeat { k, n } => {
                    h.b(12);
                    h.b(*k);
                    h.u64(*n as u64);
                }
                Ev::Snapshot => h.b(9),
                Ev::Restore => h.b(10),
                Ev::Hop { n } => {
                    h.b(13);
                    h.b(*n);
                }
                Ev::Unwinding { n } => {
                    h.b(16);
                    h.b(*n);
                }
                Ev::Misplaced { n, offset } => {
                    h.b(18);
                    h.b(*n);
                    h.b(*offset);
                }
                Ev::Liar { raw, st, fickle } => {
                    h.b(17);
                    h.b(*fickle as u8);
                    for x in raw.iter().chain(st.iter()) {
                        h.b(*x);
                    }
                }
                Ev::Bulk { n, cycle } => {
                    h.b(15);
                    h.u64(*n as u64);
                    for b in cycle {
                        h.b(b[0]);
                        h.b(b[1]);
                        h.b(b[2]);
                    }
                    h.b(0xff);
                }
                Ev::FeedAbort { b, which } => {
                    h.b(14);
                    h.b(b[0]);
                    h.b(b[1]);
                    h.b(b[2]);
                    h.b(*which);
                }
                Ev::Fork { k, burst } => {
                    h.b(8);
                    h.b(*k);
                    for b in burst {
                        h.b(b[0]);
                        h.b(b[1]);
                        h.b(b[2]);
                    }
                    h.b(0xff);
                }
            }
        }
        h.0
    }
}

pub struct Fnv(pub u64);
impl Fnv {
    pub fn new() -> Fnv {
        Fnv(0xcbf2_9ce4_8422_2325)
    }
    pub fn b(&mut self, x: u8) {
        self.0 ^= x as u64;
        self.0 = self.0.wrapping_mul(0x0000_0100_0000_01B3);
    }
    pub fn u64(&mut self, x: u64) {
        for i in 0..8 {
            self.b((x >> (8 * i)) as u8);
        }
    }
    pub fn u128(&mut self, x: u128) {
        self.u64(x as u64);
        self.u64((x >> 64) as u64);
    }
}
