//! C18 monitor: counting global allocator + "API region" guard + panic capture.
//!
//! Every call into helgoboss-midi goes through `api(label, || ..)`. While the closure runs, a
//! thread-local flag is up; the allocator counts allocations made while it is up; the closure
//! runs under `catch_unwind`. Harness bookkeeping allocates only outside regions.

use std::alloc::{GlobalAlloc, Layout, System};
use std::cell::Cell;
use std::sync::atomic::{AtomicBool, Ordering};

/// Drive the wide host-side API surface (conversion table, factory rebuild) on every delivery?
/// On for C18 (whose verdict it feeds), off elsewhere to keep the search fast.
pub static FULL_SURFACE: AtomicBool = AtomicBool::new(false);
pub fn full_surface() -> bool {
    FULL_SURFACE.load(Ordering::Relaxed)
}
pub fn set_full_surface(on: bool) {
    FULL_SURFACE.store(on, Ordering::Relaxed);
}

pub const N_LABELS: usize = 40;

thread_local! {
    static IN_API: Cell<u32> = const { Cell::new(0) };
    static ALLOCS_IN_API: Cell<u64> = const { Cell::new(0) };
    static PANICS: Cell<u64> = const { Cell::new(0) };
    static LAST_LABEL: Cell<usize> = const { Cell::new(0) };
    static CALLS: Cell<[u64; N_LABELS]> = const { Cell::new([0; N_LABELS]) };
}

pub struct Counting;

#[inline]
fn note_alloc() {
    let _ = IN_API.try_with(|f| {
        if f.get() > 0 {
            let _ = ALLOCS_IN_API.try_with(|c| c.set(c.get() + 1));
        }
    });
}

unsafe impl GlobalAlloc for Counting {
    unsafe fn alloc(&self, l: Layout) -> *mut u8 {
        note_alloc();
        System.alloc(l)
    }
    unsafe fn alloc_zeroed(&self, l: Layout) -> *mut u8 {
        note_alloc();
        System.alloc_zeroed(l)
    }
    unsafe fn dealloc(&self, p: *mut u8, l: Layout) {
        System.dealloc(p, l)
    }
    unsafe fn realloc(&self, p: *mut u8, l: Layout, n: usize) -> *mut u8 {
        note_alloc();
        System.realloc(p, l, n)
    }
}

/// Labels of the API surface driven by the simulation (index into the call counters).
#[allow(non_camel_case_types)]
#[derive(Copy, Clone, Debug, PartialEq, Eq)]
#[repr(usize)]
pub enum L {
    scanner_new = 0,
    scanner_default,
    scanner_eq,
    scanner_copy,
    cc14_feed,
    pn_feed,
    polling_feed,
    polling_poll,
    scanner_reset,
    ingest_u7_try_from,
    ingest_from_bytes,
    to_other_from_other,
    short_msg_accessors,
    cc14_new,
    cc14_new_bad_argument,
    cc14_accessors,
    cc14_encode,
    pn_ctor,
    pn_accessors,
    pn_encode,
    newtype_conversions,
    factory_ctor,
    predicates,
    telemetry_display_fromstr,
    msg_eq,
    _count,
}

pub const LABEL_NAMES: [&str; L::_count as usize] = [
    "scanner::new",
    "scanner::default",
    "scanner ==",
    "scanner copy",
    "ControlChange14BitMessageScanner::feed",
    "ParameterNumberMessageScanner::feed",
    "PollingParameterNumberMessageScanner::feed",
    "PollingParameterNumberMessageScanner::poll",
    "scanner::reset",
    "U7::try_from(u8)",
    "RawShortMessage::from_bytes",
    "to_other/from_other",
    "ShortMessage accessors (type, channel, controller_number, control_value, to_bytes, ...)",
    "ControlChange14BitMessage::new",
    "ControlChange14BitMessage::new (MSB controller > 31: documented panic)",
    "ControlChange14BitMessage accessors",
    "ControlChange14BitMessage::to_short_messages / <[T;2]>::from",
    "ParameterNumberMessage constructors",
    "ParameterNumberMessage accessors",
    "ParameterNumberMessage::to_short_messages / <[Option<T>;4]>::from",
    "Channel/U7/U14/ControllerNumber new/get/From/TryFrom",
    "ShortMessageFactory named constructors (control_change, note_on, ...)",
    "ControllerNumber predicates",
    "Display into stack buffer + FromStr (telemetry); Debug of scanners and messages into a counting sink; Hash of messages",
    "message ==",
];

#[derive(Debug)]
pub struct Panicked(pub L);

/// Runs `f` as an API region.
#[inline]
pub fn api<T>(label: L, f: impl FnOnce() -> T) -> Result<T, Panicked> {
    IN_API.with(|c| c.set(c.get() + 1));
    LAST_LABEL.with(|c| c.set(label as usize));
    CALLS.with(|c| {
        let mut a = c.get();
        a[label as usize] += 1;
        c.set(a);
    });
    let r = std::panic::catch_unwind(std::panic::AssertUnwindSafe(f));
    IN_API.with(|c| c.set(c.get() - 1));
    match r {
        Ok(v) => Ok(v),
        Err(_) => {
            PANICS.with(|c| c.set(c.get() + 1));
            Err(Panicked(label))
        }
    }
}

thread_local! {
    static FOREIGN_CLOCK_READS: Cell<u64> = const { Cell::new(0) };
    static FOREIGN_DIRECT_READS: Cell<u64> = const { Cell::new(0) };
}

/// Hook-clock reads / direct clock reads made on behalf of this thread by calls that ran on
/// another OS thread (see `api_hop`).
pub fn foreign_clock_reads() -> u64 {
    FOREIGN_CLOCK_READS.with(|c| c.get())
}
pub fn foreign_direct_reads() -> u64 {
    FOREIGN_DIRECT_READS.with(|c| c.get())
}

/// Runs `f` as an API region **on another OS thread** while this thread waits: the scanners are
/// `Send + Copy`, so a host may feed on one thread and poll on another, and "moved to another
/// thread between two calls" is one more thing the schedule decides. Exactly one thread runs at any
/// time (the caller blocks in `join`), so the run stays a pure function of the trace. The simulated
/// clock (per thread in the hook) travels with the call and back; allocation, panic and clock-read
/// accounting is merged into the calling thread's counters.
pub fn api_hop<T: Send>(label: L, f: impl FnOnce() -> T + Send) -> Result<T, Panicked> {
    use helgoboss_midi::verif_hooks as clk;
    let now = clk::now();
    let step = crate::simclock::read_step();
    let out = std::thread::scope(|s| {
        let h = std::thread::Builder::new().spawn_scoped(s, move || {
            clk::set_now(now);
            clk::set_read_step(step);
            crate::simclock::set_read_step(step);
            let r = api(label, f);
            (r, clk::now(), clk::clock_reads(), crate::simclock::direct_reads(), allocs_in_api())
        });
        match h {
            Ok(h) => h.join().ok(),
            Err(_) => None,
        }
    });
    let (r, now2, reads, direct, allocs) = match out {
        Some(x) => x,
        None => {
            eprintln!("harness error: could not run a call on a second thread");
            std::process::exit(2);
        }
    };
    clk::set_now(now2);
    FOREIGN_CLOCK_READS.with(|c| c.set(c.get() + reads));
    FOREIGN_DIRECT_READS.with(|c| c.set(c.get() + direct));
    ALLOCS_IN_API.with(|c| c.set(c.get() + allocs));
    LAST_LABEL.with(|c| c.set(label as usize));
    CALLS.with(|c| {
        let mut a = c.get();
        a[label as usize] += 1;
        c.set(a);
    });
    if r.is_err() {
        PANICS.with(|c| c.set(c.get() + 1));
    }
    r
}

struct RunOnDrop<F: FnMut()>(F);
impl<F: FnMut()> Drop for RunOnDrop<F> {
    fn drop(&mut self) {
        (self.0)()
    }
}
struct UnrelatedPanic;

/// Runs `f` as an API region **from a destructor while the thread is unwinding** from an unrelated
/// panic (a scope guard or an engine object that flushes its MIDI input on drop): inside `f`
/// `std::thread::panicking()` is true although nothing is wrong with the call. The unrelated panic
/// is raised with `resume_unwind` (no panic hook) and caught here; a panic of `f` itself is caught
/// by `api` inside the destructor.
pub fn api_unwinding<T>(label: L, f: impl FnOnce() -> T) -> Result<T, Panicked> {
    let mut out: Option<Result<T, Panicked>> = None;
    {
        let slot = &mut out;
        let mut f = Some(f);
        let _ = std::panic::catch_unwind(std::panic::AssertUnwindSafe(move || {
            let _guard = RunOnDrop(move || {
                if let Some(f) = f.take() {
                    *slot = Some(api(label, f));
                }
            });
            std::panic::resume_unwind(Box::new(UnrelatedPanic));
        }));
    }
    match out {
        Some(r) => r,
        None => {
            eprintln!("harness error: the destructor that should have made the call did not run");
            std::process::exit(2);
        }
    }
}

/// How a call on the main instance is made (decided by the trace).
#[derive(Copy, Clone, PartialEq, Eq, Debug)]
pub enum Mode {
    Plain,
    OtherThread,
    Unwinding,
}

/// `api`, `api_hop` or `api_unwinding`, decided by the trace.
#[inline]
pub fn api_mode<T: Send>(mode: Mode, label: L, f: impl FnOnce() -> T + Send) -> Result<T, Panicked> {
    match mode {
        Mode::Plain => api(label, f),
        Mode::OtherThread => api_hop(label, f),
        Mode::Unwinding => api_unwinding(label, f),
    }
}

/// `api` or `api_hop`, decided by the trace.
#[inline]
pub fn api_on<T: Send>(hop: bool, label: L, f: impl FnOnce() -> T + Send) -> Result<T, Panicked> {
    if hop {
        api_hop(label, f)
    } else {
        api(label, f)
    }
}

thread_local! {
    static SOFT_PANICS: Cell<u64> = const { Cell::new(0) };
}

/// Panics of shadow instances answered with a default so far on this thread (see `api_soft`).
pub fn soft_panics() -> u64 {
    SOFT_PANICS.with(|c| c.get())
}

/// Like `api`, for `feed`/`poll` of a shadow instance: a panic is noted (the run loop turns the
/// note into C18.panic) and answered with `default` - what the caller of a caught panic is left
/// with - so that the run goes on and the other properties get their say as well.
#[inline]
pub fn api_soft<T>(label: L, default: T, f: impl FnOnce() -> T) -> Result<T, Panicked> {
    match api(label, f) {
        Ok(v) => Ok(v),
        Err(_) => {
            SOFT_PANICS.with(|c| c.set(c.get() + 1));
            Ok(default)
        }
    }
}

/// Runs `f`, which is expected to panic (documented panic site). Allocations made by the panic
/// machinery itself are not counted.
pub fn api_expect_panic<T>(label: L, f: impl FnOnce() -> T) -> Result<T, ()> {
    let before = allocs_in_api();
    let pb = PANICS.with(|c| c.get());
    let r = api(label, f);
    if r.is_err() {
        ALLOCS_IN_API.with(|c| c.set(before));
        PANICS.with(|c| c.set(pb));
    }
    r.map_err(|_| ())
}

pub fn in_api() -> bool {
    IN_API.try_with(|c| c.get() > 0).unwrap_or(false)
}

pub fn allocs_in_api() -> u64 {
    ALLOCS_IN_API.with(|c| c.get())
}

pub fn calls() -> [u64; N_LABELS] {
    CALLS.with(|c| c.get())
}

pub fn reset_thread_counters() {
    ALLOCS_IN_API.with(|c| c.set(0));
    PANICS.with(|c| c.set(0));
    CALLS.with(|c| c.set([0; N_LABELS]));
}

