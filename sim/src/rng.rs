//! The one PRNG of the simulator: xoshiro256** seeded through SplitMix64. Implemented here so that
//! no dependency upgrade can ever change the stream a seed stands for.

#[derive(Clone, Debug)]
pub struct Rng {
    s: [u64; 4],
}

fn splitmix(x: &mut u64) -> u64 {
    *x = x.wrapping_add(0x9E37_79B9_7F4A_7C15);
    let mut z = *x;
    z = (z ^ (z >> 30)).wrapping_mul(0xBF58_476D_1CE4_E5B9);
    z = (z ^ (z >> 27)).wrapping_mul(0x94D0_49BB_1331_11EB);
    z ^ (z >> 31)
}

impl Rng {
    /// Stream for run `run` of batch seed `seed` (and sub-stream `lane`).
    pub fn for_run(seed: u64, run: u64, lane: u64) -> Rng {
        let mut x = seed ^ 0x6D69_6469_7369_6D31; // "midisim1"
        let a = splitmix(&mut x);
        let mut y = a ^ run.wrapping_mul(0xD6E8_FEB8_6659_FD93);
        let b = splitmix(&mut y);
        let mut z = b ^ lane.wrapping_mul(0xA076_1D64_78BD_642F);
        let s = [splitmix(&mut z), splitmix(&mut z), splitmix(&mut z), splitmix(&mut z)];
        Rng { s }
    }

    pub fn next(&mut self) -> u64 {
        let r = self.s[1].wrapping_mul(5).rotate_left(7).wrapping_mul(9);
        let t = self.s[1] << 17;
        self.s[2] ^= self.s[0];
        self.s[3] ^= self.s[1];
        self.s[1] ^= self.s[2];
        self.s[0] ^= self.s[3];
        self.s[2] ^= t;
        self.s[3] = self.s[3].rotate_left(45);
        r
    }

    /// Uniform in 0..n (n > 0). The tiny modulo bias is irrelevant here and keeps replay trivial.
    pub fn below(&mut self, n: u64) -> u64 {
        debug_assert!(n > 0);
        self.next() % n
    }

    pub fn chance(&mut self, num: u64, den: u64) -> bool {
        self.below(den) < num
    }

    pub fn pick<'a, T>(&mut self, xs: &'a [T]) -> &'a T {
        &xs[self.below(xs.len() as u64) as usize]
    }

    pub fn u7(&mut self) -> u8 {
        self.below(128) as u8
    }
}
