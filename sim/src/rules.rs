//! Rule ids. Every oracle rule has an id `Cxx.name`; a check for property P exits 1 only on P's
//! rules. The id is also the "violation class" the shrinker preserves.

macro_rules! rules {
    ($( $variant:ident => $id:expr, $text:expr; )*) => {
        #[allow(non_camel_case_types)]
        #[derive(Copy, Clone, Debug, PartialEq, Eq, Hash, PartialOrd, Ord)]
        #[repr(usize)]
        pub enum R { $( $variant, )* _count }
        pub const RULE_IDS: [&str; R::_count as usize] = [ $( $id, )* ];
        pub const RULE_TEXT: [&str; R::_count as usize] = [ $( $text, )* ];
        pub const ALL_RULES: [R; R::_count as usize] = [ $( R::$variant, )* ];
    };
}

rules! {
    C07_ctor => "C07.ctor", "ControlChange14BitMessage::new(c, n, v) panics iff n > 31";
    C07_readback => "C07.readback", "channel(), msb_controller_number(), lsb_controller_number() (= n+32), value() return the constructor arguments";
    C07_encode => "C07.encode", "to_short_messages::<T>() and <[T;2]>::from(msg) are (0xB0|c, n, v>>7) then (0xB0|c, n+32, v&0x7F) for both factories";
    C07_roundtrip => "C07.roundtrip", "both encoded parts delivered unmodified as consecutive feeds of the CC14 scanner: first returns None, second returns exactly the original message, whatever was fed before";
    C08_spurious => "C08.spurious", "CC14 scanner returned a message the reference model (last MSB per channel) does not justify";
    C08_missing => "C08.missing", "CC14 scanner returned nothing although the reference model justifies a message";
    C08_fields => "C08.fields", "CC14 scanner's message differs from the justified one (channel, MSB controller n-32, LSB controller n, 128*v_msb+v)";
    C10_roundtrip => "C10.roundtrip", "encoding of a 7-bit/inc/dec message (either byte order) or LSB-first 14-bit message fed consecutively to the (N)RPN scanner: None until the last part, exactly the original message on it, whatever was fed before";
    C10_running => "C10.running", "running forms after one selection: each repeated data byte / each repeated LSB,MSB pair yields its message on its last byte and None before";
    C11_spurious => "C11.spurious", "(N)RPN scanner returned a message the reference model does not justify";
    C11_missing => "C11.missing", "(N)RPN scanner returned nothing although the reference model justifies a message";
    C11_fields => "C11.fields", "(N)RPN scanner's message differs from the justified one (channel, number, registered, value, resolution, data type)";
    C12_feed => "C12.feed", "inside a recognised documented sentence the two-slot result of polling feed equals the intended one exactly";
    C12_poll => "C12.poll", "inside a recognised documented sentence poll(c) returns exactly the intended value (lone MSB at the first poll at/after the timeout, nothing earlier)";
    C12_roundtrip => "C12.roundtrip", "encoded (N)RPN message (either byte order) delivered unmodified and per-channel-adjacent: reported exactly once, equal to the original, between its first part and the first late poll / next contributing message after its last part";
    C13_T1 => "C13.T1", "poll(c) returns Some(m) only if an MSB is pending on c and now - fed_at >= timeout; m is the 7-bit data entry with that value, channel c, current number and kind";
    C13_T2 => "C13.T2", "MSB pending and now - fed_at >= timeout implies poll(c) returns Some";
    C13_T4 => "C13.T4", "a poll while a timeout is running and not expired returns None and leaves the scanner equal to its pre-call copy";
    C13_T5 => "C13.T5", "the passage of time never changes what feed returns (copy fed at a jumped clock returns the same)";
    C13_T6 => "C13.T6", "an unpaired LSB is dropped by a poll at/after its deadline: no later 14-bit report uses that LSB instance";
    C14_I1 => "C14.I1", "a message returned by feed(m) carries m's channel, by poll(c) carries c";
    C14_I2 => "C14.I2", "reported number = 128*MSB+LSB of the latest number bytes received before the call, registered flag = kind of the latest number byte";
    C14_I2b => "C14.I2b", "nothing is reported while a number half is missing";
    C14_I3 => "C14.I3", "value provenance: inc/dec only from the feed of CC 96/97 with its value; 7-bit = most recent CC6 value received before the call; 14-bit = 128*a+b from the most recent CC6/CC38 values up to the current message";
    C14_I4 => "C14.I4", "a CC6 byte is not reported twice as 7-bit, nor as 7-bit after being part of a 14-bit value";
    C14_I5 => "C14.I5", "a CC6 byte received with a complete number is reported at the latest by the next contributing message on its channel (or first poll at/after timeout), unless reset";
    C14_I6 => "C14.I6", "second slot only with a first; two messages only from CC 96/97: 7-bit data entry first, then the inc/dec";
    C15_solo_feed => "C15.solo-feed", "main.feed(m) == solo[channel(m)].feed(m) where solo[c] receives only channel c's inputs";
    C15_solo_poll => "C15.solo-poll", "main.poll(c) == solo[c].poll(c)";
    C15_label => "C15.label", "every reported message carries the channel of the feed/poll that triggered it";
    C15_system => "C15.system", "a system message (status >= 0xF0) reports nothing and leaves every scanner equal to its pre-call copy";
    C16_silent => "C16.silent", "a non-contributing message reports nothing";
    C16_state => "C16.state", "a non-contributing message leaves the scanner equal to its pre-call copy";
    C16_twin => "C16.twin", "a twin fed only the contributing messages (and all polls/resets) returns the same on every contributing message and poll";
    C16_predicate => "C16.predicate", "ControllerNumber predicates agree with the contributor sets; *_LSB constants = MSB constant + 32";
    C17_equal => "C17.equal", "immediately after reset() the scanner == a newly created one (same timeout)";
    C17_fresh => "C17.fresh", "after reset() the scanner returns, for every subsequent feed/poll, what a scanner created with new(..) at that moment returns";
    C17_ctor => "C17.ctor", "new() == default(); polling default() == new(Duration::ZERO)";
    C17_copy => "C17.copy", "a copy evolves identically to and independently of the original";
    C18_alloc => "C18.alloc", "no heap allocation inside any API region";
    C18_panic => "C18.panic", "no panic inside any API region on valid input";
}

impl R {
    pub fn id(self) -> &'static str {
        RULE_IDS[self as usize]
    }
    pub fn property(self) -> &'static str {
        &RULE_IDS[self as usize][..3]
    }
}

pub const N_RULES: usize = R::_count as usize;

#[derive(Clone, Debug)]
pub struct Violation {
    pub idx: usize,
    pub rule: R,
    pub detail: String,
}
