//! The simulated world: talkers, wire/merger, poll timer, operator, clock — and the seeded
//! scheduler that turns one PRNG stream into a decision trace. Open loop: the generator never
//! looks at what the system under test returns; its notion of "in-flight state" comes from its own
//! classification of what it delivered.

use crate::probes::Probes;
use crate::rng::Rng;
use crate::trace::*;
use std::cmp::Reverse;
use std::collections::{BinaryHeap, VecDeque};

// fault kinds (index into Probes::faults_fired / faults_in_flight)
pub const F_DROP: usize = 0;
pub const F_DUP: usize = 1;
pub const F_REORDER: usize = 2;
pub const F_CORRUPT_DATA: usize = 3;
pub const F_CORRUPT_CHANNEL: usize = 4;
pub const F_CORRUPT_TYPE: usize = 5;
pub const F_INJECT: usize = 6;
pub const F_RESET_MIDFLIGHT: usize = 7;
pub const F_RESET_PLAIN: usize = 8;
pub const F_CLOCK_STALL: usize = 9;
pub const F_CLOCK_JUMP: usize = 10;
pub const F_POLL_STORM: usize = 11;
pub const F_POLL_STALL: usize = 12;
pub const F_POLL_DEADLINE_MINUS: usize = 13;
pub const F_POLL_DEADLINE_EXACT: usize = 14;
pub const F_POLL_DEADLINE_PLUS: usize = 15;
pub const F_POLL_WRONG_CHANNEL: usize = 16;
pub const F_BAD_ARGUMENT: usize = 17;
pub const F_INVALID_BYTES: usize = 18;
pub const F_FORK: usize = 19;
pub const F_RESTORE: usize = 20;
pub const F_RESET_STORM: usize = 21;
pub const F_DUP_STORM: usize = 22;
pub const F_SOAK_LOOP: usize = 23;
pub const F_CLOCK_TICK: usize = 24;
pub const F_ROLL_CALL: usize = 25;
pub const F_RAMP: usize = 26;
pub const F_THREAD_HOP: usize = 27;
pub const F_ABORTED_FEED: usize = 28;
pub const F_MARATHON: usize = 29;
pub const F_UNWINDING: usize = 30;
pub const F_LIAR: usize = 31;
pub const F_MISPLACED: usize = 32;
pub const F_STDIO_FAILS: usize = 33;
pub const N_FAULTS: usize = 34;
pub const FAULT_NAMES: [&str; N_FAULTS] = [
    "drop",
    "dup",
    "reorder",
    "corrupt-data",
    "corrupt-channel",
    "corrupt-type",
    "inject",
    "reset-midflight",
    "reset",
    "clock-stall",
    "clock-jump",
    "poll-storm",
    "poll-stall",
    "poll-deadline(-1ns)",
    "poll-deadline(0)",
    "poll-deadline(+1ns)",
    "poll-wrong-channel",
    "bad-argument",
    "invalid-bytes",
    "fork",
    "checkpoint-restore",
    "reset-storm",
    "dup-storm",
    "soak-loop",
    "clock-ticks-inside-calls(runs)",
    "roll-call",
    "ramp",
    "thread-hop",
    "aborted-feed",
    "marathon",
    "call-from-unwinding-destructor",
    "self-contradicting-message",
    "misplaced-scanner",
    "stdio-write-fails(runs)",
];

/// Per-property weights. One world, shifted towards the property's subject.
#[derive(Clone, Debug)]
pub struct Preset {
    pub name: &'static str,
    pub w_cc14_group: u64,
    pub w_pn_group: u64,
    pub w_sentence: u64,
    pub w_chaff_cc: u64,
    pub w_chaff_other: u64,
    pub w_raw_pn: u64,
    pub w_raw_cc14: u64,
    /// per mille of runs using the flat scheduler
    pub flat_pm: u64,
    /// 0 = default mix, 1 = legal placement bias (C12), 2 = deadline/storm bias (C13)
    pub poll_bias: u8,
    pub reset_boost: u64,
    pub fork_pm: u64,
    pub inject_boost: u64,
    pub min_channels: usize,
    pub clock_fault_boost: u64,
    pub corrupt_channel_boost: u64,
    pub bad_argument_pm: u64,
    /// per mille of runs that are long (400..2400 events); raised by the thorough tier
    pub long_pm: u64,
    /// how much more often soak patterns are enabled (leaks and overflows are C18's business)
    pub soak_boost: u64,
}

/// Thread hops ("the scanner is moved to another thread between two calls") are decided after the
/// world has produced the trace, from their own PRNG lane: which thread makes a call is independent
/// of what the wire delivers. A few windows of 1..8 (rarely 40) calls in about one run in 25 (one in
/// 10 for C18, whose panic monitor is the likeliest beneficiary).
pub fn add_hops(t: &mut Trace, r: &mut Rng, p: &Preset, stats: &mut Probes) {
    let pm = if p.name == "C18" { 100 } else { 40 };
    if r.below(1000) >= pm || t.events.is_empty() {
        return;
    }
    let windows = 1 + r.below(3);
    let mut any = false;
    for _ in 0..windows {
        let pos = r.below(t.events.len() as u64 + 1) as usize;
        let n = *r.pick(&[1u8, 1, 2, 2, 3, 5, 8, 40]);
        // not inside the window of a soak loop: the loop would re-arm the hop in every round
        let inside_soak = t.events.iter().enumerate().any(|(j, e)| match e {
            Ev::Repeat { k, .. } => pos + (*k as usize) > j && pos <= j,
            _ => false,
        });
        if inside_soak {
            continue;
        }
        // a quarter of the windows are "called from a destructor while the thread is unwinding"
        let kind = r.below(8);
        if kind < 2 {
            t.events.insert(pos, Ev::Unwinding { n });
            stats.faults_fired[F_UNWINDING] += 1;
        } else if kind < 4 {
            // where the scanner lives: offsets 1..7 modulo 8, for a longer stretch of calls
            let offset = 1 + r.below(7) as u8;
            t.events.insert(pos, Ev::Misplaced { n: n.saturating_mul(5), offset });
            stats.faults_fired[F_MISPLACED] += 1;
        } else {
            t.events.insert(pos, Ev::Hop { n });
            any = true;
        }
    }
    if any {
        stats.faults_fired[F_THREAD_HOP] += 1;
    }
}

/// Marathons come from lane 1 as well (after hops, aborts and the environment): one run in 1000 gets
/// one, right after an event that names a channel. Rounds: 65535..65537 or 256*(255..257) (60 %),
/// 2^20 (30-40 %), 2^24 .. 2^24+2 or 65536*255 (5 %; 10 % in the thorough tier; in C18's unoptimised
/// profile only in the thorough tier).
pub fn add_marathon(t: &mut Trace, r: &mut Rng, p: &Preset, stats: &mut Probes) {
    if r.below(1000) != 0 || t.events.is_empty() {
        return;
    }
    let deep = p.long_pm > 2;
    let pos = r.below(t.events.len() as u64 + 1) as usize;
    let inside_soak = t.events.iter().enumerate().any(|(j, e)| match e {
        Ev::Repeat { k, .. } => pos + (*k as usize) > j && pos <= j,
        _ => false,
    });
    let named = t.events[..pos].iter().rev().find_map(|e| match e {
        Ev::EncCc14 { ch, .. } | Ev::Poll { ch } => Some((*ch, None)),
        Ev::EncPn { ch, num, reg, .. } => Some((*ch, Some((*num, *reg)))),
        Ev::Feed { b, .. } if b[0] >= 0x80 && b[0] < 0xF0 => Some((b[0] & 0x0F, None)),
        _ => None,
    });
    let (ch, sel) = named.unwrap_or((r.below(16) as u8, None));
    let big = |r: &mut Rng| if r.chance(1, 2) { (1u32 << 24) + r.below(3) as u32 } else { 65536 * (255 + r.below(2) as u32) };
    let n = match r.below(20) {
        0..=7 => 65535 + r.below(3) as u32,
        8..=11 => 256 * (255 + r.below(3) as u32),
        12..=17 => 1 << 20,
        // 2^24 rounds cost seconds (tens of seconds at opt-level 0, which is C18's profile)
        18 if p.name != "C18" || deep => big(r),
        19 if deep => big(r),
        _ => 1 << 20,
    };
    let len = 1 + r.below(3) as usize;
    let mut cycle = Vec::new();
    for _ in 0..len {
        let b = match r.below(10) {
            // re-selection of the channel's parameter number (or a random one), either half
            0..=5 => {
                let (num, reg) = sel.unwrap_or((r.below(16384) as u16, r.chance(1, 2)));
                let msb = r.chance(1, 2);
                let cn = match (reg, msb) {
                    (true, true) => 101,
                    (true, false) => 100,
                    (false, true) => 99,
                    (false, false) => 98,
                };
                let v = if r.chance(1, 4) { r.u7() } else if msb { (num >> 7) as u8 } else { (num & 0x7f) as u8 };
                [0xB0 | ch, cn, v]
            }
            // an MSB-range controller of a 14-bit CC (never 6)
            6 | 7 => {
                let cn = *r.pick(&[0u8, 1, 2, 7, 10, 11, 31, 5]);
                [0xB0 | ch, cn, r.u7()]
            }
            // other traffic on the channel, or a system real-time message
            8 => [0x90 | ch, r.u7(), r.u7()],
            _ => {
                if r.chance(1, 2) {
                    [0xF8, 0, 0]
                } else {
                    [0xB0 | ch, 64 + r.below(32) as u8, r.u7()]
                }
            }
        };
        cycle.push(b);
    }
    if inside_soak {
        return;
    }
    t.events.insert(pos, Ev::Bulk { n, cycle });
    stats.faults_fired[F_MARATHON] += 1;
}

/// Self-contradicting message objects (byte getters and `to_structured()` disagree), from lane 1:
/// one run in 40 gets one or two, each followed - at once or a few events later - by a reset, which
/// is the only thing judged about them.
pub fn add_liars(t: &mut Trace, r: &mut Rng, stats: &mut Probes) {
    if r.below(40) != 0 || t.events.is_empty() {
        return;
    }
    let count = 1 + r.below(2);
    for _ in 0..count {
        let pos = r.below(t.events.len() as u64 + 1) as usize;
        let inside_soak = t.events.iter().enumerate().any(|(j, e)| match e {
            Ev::Repeat { k, .. } => pos + (*k as usize) + 4 > j && pos <= j,
            _ => false,
        });
        let ch = t.events[..pos]
            .iter()
            .rev()
            .find_map(|e| match e {
                Ev::EncCc14 { ch, .. } | Ev::EncPn { ch, .. } | Ev::Poll { ch } => Some(*ch),
                Ev::Feed { b, .. } if b[0] >= 0x80 && b[0] < 0xF0 => Some(b[0] & 0x0F),
                _ => None,
            })
            .unwrap_or(r.below(16) as u8);
        let mut side = |r: &mut Rng, ch: u8| -> [u8; 3] {
            match r.below(8) {
                0..=2 => [0xB0 | ch, *r.pick(&[6u8, 38, 96, 97, 98, 99, 100, 101]), r.u7()],
                3 | 4 => [0xB0 | ch, r.below(64) as u8, r.u7()],
                5 => [0xB0 | ch, 64 + r.below(64) as u8, r.u7()],
                6 => [0x80 | ((r.below(7) as u8) << 4) | ch, r.u7(), r.u7()],
                _ => [0xF8, 0, 0],
            }
        };
        let raw = side(r, ch);
        let other_ch = if r.chance(1, 4) { r.below(16) as u8 } else { ch };
        let st = side(r, other_ch);
        let gap = r.below(4) as usize;
        if inside_soak || raw == st {
            continue;
        }
        let fickle = r.chance(1, 3);
        t.events.insert(pos, Ev::Liar { raw, st, fickle });
        let rpos = (pos + 1 + gap).min(t.events.len());
        t.events.insert(rpos, Ev::Reset);
        stats.faults_fired[F_LIAR] += 1;
    }
}

/// What the process environment looks like to library code: decided per run from lane 1 (after
/// hops and aborts): one run in 30 sees every variable set ("0", "1" or empty).
pub fn pick_env_mode(t: &mut Trace, r: &mut Rng) {
    if r.below(30) == 0 {
        t.env_mode = 1 + r.below(3) as u8;
    }
}

/// Does the process's stdout/stderr accept writes made by library code? One run in 30: no (EIO).
pub fn pick_stdio(t: &mut Trace, r: &mut Rng, stats: &mut Probes) {
    if r.below(30) == 0 {
        t.stdio_fails = true;
        stats.faults_fired[F_STDIO_FAILS] += 1;
    }
}

/// Aborted feeds (a message object whose getter panics, caught by the host) come from the same
/// lane as the hops, after them: one to three in about one run in 25, each right after an event
/// that names a channel (so that it tends to hit a channel with state), with a data-entry,
/// parameter-number or 14-bit controller number or a random one.
pub fn add_aborts(t: &mut Trace, r: &mut Rng, stats: &mut Probes) {
    if r.below(1000) >= 40 || t.events.is_empty() {
        return;
    }
    let count = 1 + r.below(3);
    let mut any = false;
    for _ in 0..count {
        let pos = r.below(t.events.len() as u64 + 1) as usize;
        let inside_soak = t.events.iter().enumerate().any(|(j, e)| match e {
            Ev::Repeat { k, .. } => pos + (*k as usize) > j && pos <= j,
            _ => false,
        });
        // the channel of the nearest earlier event that names one
        let ch = t.events[..pos]
            .iter()
            .rev()
            .find_map(|e| match e {
                Ev::EncCc14 { ch, .. } | Ev::EncPn { ch, .. } | Ev::Poll { ch } => Some(*ch),
                Ev::Feed { b, .. } if b[0] >= 0x80 && b[0] < 0xF0 => Some(b[0] & 0x0F),
                _ => None,
            })
            .unwrap_or(r.below(16) as u8);
        let cn = match r.below(4) {
            0 => *r.pick(&[6u8, 38, 96, 97, 98, 99, 100, 101]),
            1 => r.below(64) as u8,
            2 => *r.pick(&[6u8, 38]),
            _ => r.u7(),
        };
        let status = if r.chance(1, 8) { 0x80 | ((r.below(7) as u8) << 4) | ch } else { 0xB0 | ch };
        let which = *r.pick(&[1u8, 2, 2, 2, 0]);
        let v = r.u7();
        if inside_soak {
            continue;
        }
        t.events.insert(pos, Ev::FeedAbort { b: [status, cn, v], which });
        any = true;
    }
    if any {
        stats.faults_fired[F_ABORTED_FEED] += 1;
    }
}

pub fn preset_for(prop: &str) -> Preset {
    let base = Preset {
        name: "all",
        w_cc14_group: 10,
        w_pn_group: 20,
        w_sentence: 20,
        w_chaff_cc: 6,
        w_chaff_other: 4,
        w_raw_pn: 14,
        w_raw_cc14: 8,
        flat_pm: 400,
        poll_bias: 0,
        reset_boost: 1,
        fork_pm: 30,
        inject_boost: 1,
        min_channels: 1,
        clock_fault_boost: 1,
        corrupt_channel_boost: 1,
        bad_argument_pm: 100,
        long_pm: 2,
        soak_boost: 1,
    };
    match prop {
        "C07" => Preset { name: "C07", w_cc14_group: 50, w_raw_cc14: 25, w_pn_group: 5, w_sentence: 5, w_raw_pn: 5, bad_argument_pm: 150, ..base },
        "C08" => Preset { name: "C08", w_cc14_group: 20, w_raw_cc14: 50, w_pn_group: 4, w_sentence: 4, w_raw_pn: 6, flat_pm: 500, ..base },
        "C10" => Preset { name: "C10", w_pn_group: 60, w_sentence: 8, w_raw_pn: 20, w_cc14_group: 3, w_raw_cc14: 3, ..base },
        "C11" => Preset { name: "C11", w_pn_group: 20, w_sentence: 15, w_raw_pn: 50, w_cc14_group: 2, w_raw_cc14: 2, flat_pm: 500, ..base },
        "C12" => Preset { name: "C12", w_pn_group: 30, w_sentence: 50, w_raw_pn: 6, w_cc14_group: 2, w_raw_cc14: 2, poll_bias: 1, flat_pm: 300, ..base },
        "C13" => Preset { name: "C13", w_pn_group: 20, w_sentence: 35, w_raw_pn: 25, w_cc14_group: 1, w_raw_cc14: 1, poll_bias: 2, clock_fault_boost: 3, flat_pm: 400, ..base },
        "C14" => Preset { name: "C14", w_pn_group: 15, w_sentence: 25, w_raw_pn: 40, w_cc14_group: 1, w_raw_cc14: 1, flat_pm: 600, ..base },
        "C15" => Preset { name: "C15", min_channels: 2, corrupt_channel_boost: 4, ..base },
        "C16" => Preset { name: "C16", inject_boost: 6, w_chaff_cc: 14, w_chaff_other: 10, ..base },
        "C17" => Preset { name: "C17", reset_boost: 5, fork_pm: 150, ..base },
        "C18" => Preset { name: "C18", soak_boost: 3, ..base },
        _ => base,
    }
}

#[derive(Copy, Clone, Debug, PartialEq)]
enum ValueMode {
    Unique,
    Random,
    Boundary,
    /// coincidences: mostly re-use a value (or number byte) seen recently on the channel
    Echo,
    /// stratified: values, numbers and controller numbers walk through their ranges as a function
    /// of the run index, so that a batch covers each range evenly instead of by coupon collecting
    Sweep,
}

#[derive(Clone, Debug)]
pub struct Cfg {
    pub timeout_ns: u128,
    pub read_step_ns: u128,
    pub ctor_default: bool,
    pub channels: Vec<u8>,
    pub flat: bool,
    pub len: usize,
    value_mode: ValueMode,
    two_numbers: bool,
    /// None = mixed per message
    pub repr: Option<u8>,
    pub fac: Option<u8>,
    pub fault_free: bool,
    /// per-mille rates per fault kind (0 = disabled)
    pub rate: [u64; N_FAULTS],
    poll_periodic: Option<u128>,
    poll_round_robin: bool,
    poll_deadline: bool,
    poll_after_delivery_pm: u64,
    poll_stall_until: usize,
    gap_scale: u8,
    latency_ns: u128,
    epilogue: bool,
}

impl Cfg {
    pub fn to_json(&self) -> crate::json::J {
        use crate::json::J;
        let mut faults = J::obj();
        for i in 0..N_FAULTS {
            if self.rate[i] > 0 {
                faults.put(FAULT_NAMES[i], J::u(self.rate[i]));
            }
        }
        J::obj()
            .set("timeout_ns", J::Str(self.timeout_ns.to_string()))
            .set("clock_read_step_ns", J::Str(self.read_step_ns.to_string()))
            .set("scanners_created_with", J::s(if self.ctor_default { "Default::default()" } else { "new(..)" }))
            .set("channels", J::arr(self.channels.iter().map(|c| J::i(*c))))
            .set("scheduler", J::s(if self.flat { "flat" } else { "rig" }))
            .set("max_events", J::us(self.len))
            .set("value_mode", J::s(match self.value_mode {
                ValueMode::Unique => "unique",
                ValueMode::Random => "random",
                ValueMode::Boundary => "boundary",
                ValueMode::Echo => "echo",
                ValueMode::Sweep => "sweep",
            }))
            .set("two_numbers", J::Bool(self.two_numbers))
            .set("repr", self.repr.map(J::i).unwrap_or(J::s("mixed")))
            .set("fault_free", J::Bool(self.fault_free))
            .set("fault_rates_per_mille", faults)
            .set("poll_periodic_ns", self.poll_periodic.map(|p| J::Str(p.to_string())).unwrap_or(J::Null))
            .set("poll_deadline_aimed", J::Bool(self.poll_deadline))
            .set("epilogue", J::Bool(self.epilogue))
    }
}

const TIMEOUTS: [u128; 7] = [0, 1, 1_000, 10_000_000, 1_000_000_000, u64::MAX as u128, DUR_MAX_NS];

pub fn draw_cfg(r: &mut Rng, p: &Preset) -> Cfg {
    let timeout_ns = match r.below(16) {
        0..=3 => 0,
        4 => 1,
        5 | 6 => 1_000,
        7..=10 => 10_000_000,
        11 | 12 => 1_000_000_000,
        13 => u64::MAX as u128,
        14 => DUR_MAX_NS,
        _ => match r.below(6) {
            4 | 5 => {
                // numeric edges of Duration conversions: 2^31, 2^32, 2^63, 2^64 (-1, +0, +1) in ns, us, ms, s
                let unit = *r.pick(&[1u128, 1_000, 1_000_000, 1_000_000_000]);
                let p = *r.pick(&[31u32, 32, 63, 64, 55]);
                let base = (1u128 << p).saturating_mul(unit);
                let v = match r.below(3) {
                    0 => base.saturating_sub(1),
                    1 => base,
                    _ => base.saturating_add(1),
                };
                v.min(DUR_MAX_NS)
            }
            0 => *r.pick(&TIMEOUTS),
            1 => 1 + r.below(1u64 << 40) as u128,
            2 => 1_500_000_000,
            _ => (1 + r.below(100_000) as u128) * 1_000_000_000 + r.below(1_000_000_000) as u128,
        },
    };
    // active channels: a random subset, so that high channel numbers also occur in small rigs
    let nch = match r.below(10) {
        0..=2 => 1,
        3..=5 => 2,
        6 | 7 => 3,
        8 => 4 + r.below(4) as usize,
        _ => 16,
    }
    .max(p.min_channels);
    let mut all: Vec<u8> = (0..16).collect();
    for i in 0..nch {
        let j = i + r.below((16 - i) as u64) as usize;
        all.swap(i, j);
    }
    all.truncate(nch);
    let flat = r.below(1000) < p.flat_pm;
    let len = if r.below(1000) < p.long_pm {
        400 + r.below(2000) as usize
    } else if r.chance(3, 4) {
        3 + r.below(28) as usize
    } else {
        30 + r.below(370) as usize
    };
    let value_mode = *r.pick(&[ValueMode::Unique, ValueMode::Random, ValueMode::Boundary, ValueMode::Echo, ValueMode::Sweep]);
    let fault_free = r.chance(1, 3);
    let mut rate = [0u64; N_FAULTS];
    if !fault_free {
        // a random subset of fault kinds, each with its own rate
        let wire = [F_DROP, F_DUP, F_REORDER, F_CORRUPT_DATA, F_CORRUPT_CHANNEL, F_CORRUPT_TYPE, F_INJECT, F_INVALID_BYTES];
        for &f in wire.iter() {
            if r.chance(1, 2) {
                rate[f] = *r.pick(&[10u64, 30, 60, 120]);
            }
        }
        rate[F_INJECT] *= p.inject_boost;
        rate[F_CORRUPT_CHANNEL] *= p.corrupt_channel_boost;
        if r.chance(1, 2) {
            rate[F_RESET_MIDFLIGHT] = *r.pick(&[20u64, 60, 150]) * p.reset_boost;
        }
        if r.chance(1, 2) {
            rate[F_RESET_PLAIN] = *r.pick(&[5u64, 20, 50]) * p.reset_boost;
        }
        if r.chance(1, 3) {
            rate[F_CLOCK_STALL] = *r.pick(&[30u64, 100]) * p.clock_fault_boost;
        }
        if r.chance(1, 3) {
            rate[F_CLOCK_JUMP] = *r.pick(&[10u64, 40]) * p.clock_fault_boost;
        }
        if r.chance(1, 3) {
            rate[F_POLL_STORM] = *r.pick(&[20u64, 60]);
        }
        if r.chance(1, 6) {
            rate[F_RESET_STORM] = *r.pick(&[100u64, 300]);
        }
        if r.chance(1, 12) {
            rate[F_DUP_STORM] = *r.pick(&[10u64, 30]);
        }
        if r.below(10) < p.soak_boost {
            rate[F_SOAK_LOOP] = *r.pick(&[15u64, 40]);
        }
        if r.chance(1, 6) {
            rate[F_ROLL_CALL] = 1;
        }
        if r.chance(1, 8) {
            rate[F_RAMP] = 1;
        }
        if r.chance(1, 4) {
            rate[F_POLL_WRONG_CHANNEL] = *r.pick(&[20u64, 80]);
        }
        if r.chance(1, 2) {
            rate[F_BAD_ARGUMENT] = p.bad_argument_pm;
        }
        if r.below(1000) < p.fork_pm * 4 {
            rate[F_FORK] = 30;
        }
        if r.below(1000) < p.fork_pm * 4 {
            rate[F_RESTORE] = *r.pick(&[20u64, 60]);
        }
    } else if p.name == "C16" {
        // transparency needs foreign traffic even when nothing else goes wrong
        rate[F_INJECT] = 60;
    } else if p.name == "C17" {
        rate[F_RESET_PLAIN] = 40;
        rate[F_RESET_MIDFLIGHT] = 60;
        rate[F_FORK] = 30;
        rate[F_RESTORE] = 30;
    }
    for x in rate.iter_mut() {
        *x = (*x).min(600);
    }
    // poll timer policy
    let t = timeout_ns;
    let finite = t > 0 && t < (1u128 << 62);
    let period_choices: Vec<u128> = if finite { vec![0, 1.max(t / 3), t, t.saturating_mul(2).saturating_add(1)] } else { vec![0, 1, 1_000_000] };
    let poll_kind = match p.poll_bias {
        2 => *r.pick(&[0u8, 1, 2, 2, 2, 3, 3, 4]),
        1 => *r.pick(&[0u8, 1, 1, 2, 3, 3, 4, 4]),
        _ => r.below(5) as u8,
    };
    let (poll_periodic, poll_round_robin, poll_deadline, poll_after_delivery_pm) = match poll_kind {
        0 => (None, false, false, 0),
        1 => (Some(*r.pick(&period_choices)), r.chance(1, 3), false, 0),
        2 => (None, false, true, 100),
        3 => (Some(*r.pick(&period_choices)), false, true, 200),
        _ => (None, false, r.chance(1, 2), *r.pick(&[100u64, 300, 600])),
    };
    let poll_stall_until = if !fault_free && r.chance(1, 6) {
        rate[F_POLL_STALL] = 1;
        len / 2
    } else {
        0
    };
    // time passes inside calls: in one run out of seven every clock read moves the clock on
    let read_step_ns = if !fault_free && r.chance(1, 5) || fault_free && r.chance(1, 20) {
        rate[F_CLOCK_TICK] = 1;
        match r.below(6) {
            0 | 1 => 1,
            2 => 2,
            3 => (timeout_ns / 3).max(1).min(1 << 40),
            4 => timeout_ns.max(1).min(1 << 40),
            _ => *r.pick(&[1_000u128, 1_000_000, 1_000_000_000]),
        }
    } else {
        0
    };
    Cfg {
        timeout_ns,
        read_step_ns,
        ctor_default: r.chance(1, 4),
        channels: all,
        flat,
        len,
        value_mode,
        two_numbers: r.chance(1, 2),
        repr: if r.chance(1, 2) { None } else { Some(r.below(N_REPR as u64) as u8) },
        fac: if r.chance(1, 2) { None } else { Some(r.below(2) as u8) },
        fault_free,
        rate,
        poll_periodic,
        poll_round_robin,
        poll_deadline,
        poll_after_delivery_pm,
        poll_stall_until,
        gap_scale: r.below(4) as u8,
        latency_ns: *r.pick(&[0u128, 0, 1, 1_000, 1_000_000]),
        epilogue: r.chance(1, 2),
    }
}

/// A message on its way through the wire.
#[derive(Clone, Debug)]
enum Wire {
    Part { g: u32, i: u8, ch: u8, cn: u8, x: [u8; 3] },
    Lit { b: [u8; 3] },
}
impl Wire {
    fn channel(&self) -> Option<u8> {
        match self {
            Wire::Part { ch, x, .. } => Some((ch ^ x[0]) & 0x0F),
            Wire::Lit { b } => {
                if b[0] >= 0x80 && b[0] < 0xF0 {
                    Some(b[0] & 0x0F)
                } else {
                    None
                }
            }
        }
    }
    /// (controller number) if this is (expected to be) a Control Change
    fn cc_cn(&self) -> Option<u8> {
        match self {
            Wire::Part { cn, x, .. } => {
                if x[0] & 0xF0 == 0 {
                    Some(cn ^ x[1])
                } else {
                    None
                }
            }
            Wire::Lit { b } => {
                if b[0] & 0xF0 == 0xB0 {
                    Some(b[1])
                } else {
                    None
                }
            }
        }
    }
}

#[derive(Clone, Debug)]
struct Item {
    gap: u128,
    msg: Wire,
}

#[derive(Clone, Debug)]
enum Action {
    TalkerSend(usize),
    SysSend,
    Deliver(Wire),
    PollTick,
    PollAt(u8, Option<usize>),
    OperatorReset(bool),
}

pub struct Gen<'a> {
    r: &'a mut Rng,
    p: &'a Preset,
    pub cfg: Cfg,
    ev: Vec<Ev>,
    next_group: u32,
    uniq: [u8; 16],
    numbers: [(u16, bool); 2],
    // generator-side view of what is in flight per channel (own classification)
    inflight: [bool; 16],
    pending_value: [bool; 16],
    stats: &'a mut Probes,
    rr_next: usize,
    stall_left: u32,
    snap_state: Option<([bool; 16], [bool; 16])>,
    recent: [[u8; 4]; 16],
    recent_pos: [u8; 16],
    run: u64,
    sweep_k: u64,
    soaks: u8,
}

fn is_pn(cn: u8) -> bool {
    matches!(cn, 6 | 38 | 96..=101)
}

impl<'a> Gen<'a> {
    pub fn generate(r: &'a mut Rng, p: &'a Preset, stats: &'a mut Probes, run: u64) -> (Trace, Cfg) {
        let cfg = draw_cfg(r, p);
        let special = [0u16, 1, 2, 5, 6, 127, 128, 16383];
        let pick_num = |r: &mut Rng| if r.chance(1, 3) { *r.pick(&special) } else { r.below(16384) as u16 };
        let numbers = [(pick_num(r), r.chance(1, 2)), (pick_num(r), r.chance(1, 2))];
        let mut g = Gen { r, p, cfg, ev: Vec::new(), next_group: 0, uniq: [0; 16], numbers, inflight: [false; 16], pending_value: [false; 16], stats, rr_next: 0, stall_left: 0, snap_state: None, recent: {
            // seeded with bytes a message shares with itself: channel number, low bits of the CC status byte
            let mut rc = [[0u8, 127, 64, 1]; 16];
            for (c, e) in rc.iter_mut().enumerate() {
                e[2] = 0x30 | c as u8;
                e[3] = c as u8;
            }
            rc
        }, recent_pos: [0; 16], run, sweep_k: 0, soaks: 0 };
        if g.cfg.channels.len() > 1 {
            g.stats.multi_channel_runs += 1;
        }
        if g.cfg.fault_free {
            g.stats.fault_free_runs += 1;
        }
        if g.cfg.flat {
            g.run_flat();
        } else {
            g.run_rig();
        }
        if g.cfg.epilogue {
            g.epilogue();
        }
        let cfg = g.cfg.clone();
        if cfg.read_step_ns > 0 {
            g.stats.faults_fired[F_CLOCK_TICK] += 1;
        }
        (Trace { timeout_ns: cfg.timeout_ns, read_step_ns: cfg.read_step_ns, ctor_default: cfg.ctor_default, env_mode: 0, stdio_fails: false, events: g.ev }, cfg)
    }

    fn fire(&mut self, f: usize, ch: Option<u8>) {
        self.stats.faults_fired[f] += 1;
        let landed = match ch {
            Some(c) => self.inflight[c as usize],
            None => self.inflight.iter().any(|x| *x),
        };
        if landed {
            self.stats.faults_in_flight[f] += 1;
        }
    }

    /// Does fault kind f strike now? Rates are doubled on channels with in-flight state and
    /// halved elsewhere (biased placement).
    fn strikes(&mut self, f: usize, ch: Option<u8>) -> bool {
        let base = self.cfg.rate[f];
        if base == 0 {
            return false;
        }
        let hot = match ch {
            Some(c) => self.inflight[c as usize],
            None => false,
        };
        let rate = if hot { base * 2 } else { (base / 2).max(1) };
        self.r.below(1000) < rate
    }

    fn repr(&mut self) -> u8 {
        match self.cfg.repr {
            Some(x) => x,
            None => self.r.below(N_REPR as u64) as u8,
        }
    }
    fn fac(&mut self) -> u8 {
        match self.cfg.fac {
            Some(x) => x,
            None => self.r.below(2) as u8,
        }
    }

    fn value7(&mut self, ch: u8) -> u8 {
        match self.cfg.value_mode {
            ValueMode::Unique => {
                let v = self.uniq[ch as usize];
                self.uniq[ch as usize] = (v + 1) % 128;
                v
            }
            ValueMode::Random => self.r.u7(),
            ValueMode::Boundary => {
                if self.r.chance(3, 4) {
                    *self.r.pick(&[0u8, 1, 63, 64, 126, 127])
                } else {
                    self.r.u7()
                }
            }
            ValueMode::Sweep => {
                self.sweep_k = self.sweep_k.wrapping_add(1);
                ((self.run.wrapping_mul(29).wrapping_add(self.sweep_k.wrapping_mul(37))) % 128) as u8
            }
            ValueMode::Echo => {
                let v = if self.r.chance(3, 5) {
                    let k = self.r.below(4) as usize;
                    let e = self.recent[ch as usize][k];
                    match self.r.below(8) {
                        0 => e.wrapping_add(1) & 0x7f,
                        1 => e.wrapping_sub(1) & 0x7f,
                        2 => 0,
                        _ => e,
                    }
                } else {
                    self.r.u7()
                };
                self.note_recent(ch, v);
                v
            }
        }
    }
    fn note_recent(&mut self, ch: u8, v: u8) {
        // slots 2 and 3 keep the channel's own bytes (status bits, channel number)
        let k = self.recent_pos[ch as usize] as usize % 2;
        self.recent[ch as usize][k] = v;
        self.recent_pos[ch as usize] = self.recent_pos[ch as usize].wrapping_add(1);
    }
    fn value14(&mut self, ch: u8) -> u16 {
        match self.cfg.value_mode {
            ValueMode::Unique | ValueMode::Echo => (self.value7(ch) as u16) * 128 + self.value7(ch) as u16,
            ValueMode::Random => self.r.below(16384) as u16,
            ValueMode::Sweep => {
                self.sweep_k = self.sweep_k.wrapping_add(1);
                ((self.run.wrapping_mul(6151).wrapping_add(self.sweep_k.wrapping_mul(4099))) % 16384) as u16
            }
            ValueMode::Boundary => {
                if self.r.chance(3, 4) {
                    *self.r.pick(&[0u16, 1, 127, 128, 129, 8191, 8192, 16256, 16382, 16383])
                } else {
                    self.r.below(16384) as u16
                }
            }
        }
    }
    fn number(&mut self) -> (u16, bool) {
        if self.cfg.value_mode == ValueMode::Sweep {
            self.sweep_k = self.sweep_k.wrapping_add(1);
            let n = (self.run.wrapping_mul(3).wrapping_add(self.sweep_k)) % 16384;
            return (n as u16, self.r.chance(1, 2));
        }
        if self.cfg.value_mode == ValueMode::Echo && self.r.chance(1, 3) {
            // coincidences between the fields of one message: number bytes that repeat a byte seen
            // on some channel recently (values, status-byte bits, channel numbers)
            let c = *self.r.pick(&self.cfg.channels.clone()) as usize;
            let a = self.recent[c][self.r.below(4) as usize];
            let b = if self.r.chance(2, 3) { a } else { self.recent[c][self.r.below(4) as usize] };
            return (((a as u16) << 7) | b as u16, self.r.chance(1, 2));
        }
        if self.cfg.two_numbers {
            let k = self.r.below(2) as usize;
            self.numbers[k]
        } else {
            match self.r.below(12) {
                // standard registered parameters (pitch bend range ... MPE configuration) and the RPN null function
                0 | 1 => (self.r.below(7) as u16, self.r.chance(5, 6)),
                2 => (16383, self.r.chance(3, 4)),
                3 | 4 => (*self.r.pick(&[0u16, 127, 128, 129, 16383, 16256, 16382, 8192]), self.r.chance(1, 2)),
                _ => (self.r.below(16384) as u16, self.r.chance(1, 2)),
            }
        }
    }

    /// 2^31, 2^32, 2^63, 2^64 (-1, +0, +1, + a little) in ns, us, ms or s, capped at Duration::MAX.
    fn cast_edge(&mut self) -> u128 {
        let unit = *self.r.pick(&[1u128, 1_000, 1_000_000, 1_000_000_000]);
        let p = *self.r.pick(&[31u32, 32, 32, 63, 64]);
        let base = (1u128 << p).saturating_mul(unit);
        match self.r.below(4) {
            0 => base.saturating_sub(1),
            1 => base,
            2 => base.saturating_add(1),
            _ => base.saturating_add(self.cfg.timeout_ns / 2),
        }
        .min(DUR_MAX_NS)
    }

    /// Think-time gap, relative to the timeout.
    fn gap(&mut self) -> u128 {
        let t = self.cfg.timeout_ns;
        if self.cfg.gap_scale >= 2 && self.r.chance(1, 40) {
            // elapsed times at the numeric edges of Duration conversions, whatever the timeout
            return self.cast_edge();
        }
        let k = match self.cfg.gap_scale {
            0 => 0, // everything back to back
            1 => self.r.below(4),
            2 => self.r.below(10),
            _ => 3 + self.r.below(9),
        };
        match k {
            0..=2 => 0,
            3 => 1,
            4 => t.saturating_sub(1),
            5 => t,
            6 => t.saturating_add(1),
            7 => t.saturating_mul(3),
            8 => self.r.below(1_000_000) as u128,
            9 => self.r.below(5_000_000_000) as u128,
            10 => t / 2,
            _ => DUR_MAX_NS, // "forever"
        }
        .min(DUR_MAX_NS)
    }

    // ---- script building ------------------------------------------------------------------

    fn push_enc_pn(&mut self, ch: u8, num: u16, reg: bool, kind: u8, order: u8) -> (u32, u8) {
        let g = self.next_group;
        self.next_group += 1;
        let val = if kind == K_14BIT { self.value14(ch) } else { self.value7(ch) as u16 };
        let fac = self.fac();
        self.ev.push(Ev::EncPn { g, ch, num, val, reg, kind, order, fac });
        (g, if kind == K_14BIT { 4 } else { 3 })
    }

    /// expected controller number of part i (harness-side knowledge of the documented encoding)
    fn pn_part_cn(reg: bool, kind: u8, order: u8, i: u8) -> u8 {
        match i {
            0 => {
                if reg {
                    101
                } else {
                    99
                }
            }
            1 => {
                if reg {
                    100
                } else {
                    98
                }
            }
            2 => match kind {
                K_7BIT => 6,
                K_INC => 96,
                K_DEC => 97,
                _ => {
                    if order == 0 {
                        6
                    } else {
                        38
                    }
                }
            },
            _ => {
                if order == 0 {
                    38
                } else {
                    6
                }
            }
        }
    }

    fn script(&mut self, ch: u8, q: &mut VecDeque<Item>) {
        let p = self.p;
        let total = p.w_cc14_group + p.w_pn_group + p.w_sentence + p.w_chaff_cc + p.w_chaff_other + p.w_raw_pn + p.w_raw_cc14;
        let mut k = self.r.below(total);
        let first_gap = self.gap();
        let start = q.len();
        if k < p.w_cc14_group {
            let bad = self.cfg.rate[F_BAD_ARGUMENT] > 0 && self.r.below(1000) < self.cfg.rate[F_BAD_ARGUMENT];
            let cn = if bad {
                32 + self.r.below(96) as u8
            } else if self.cfg.value_mode == ValueMode::Sweep {
                self.sweep_k = self.sweep_k.wrapping_add(1);
                ((self.run.wrapping_add(self.sweep_k.wrapping_mul(5))) % 32) as u8
            } else {
                self.r.below(32) as u8
            };
            if bad {
                self.fire(F_BAD_ARGUMENT, Some(ch));
            }
            let g = self.next_group;
            self.next_group += 1;
            let val = self.value14(ch);
            let fac = self.fac();
            self.ev.push(Ev::EncCc14 { g, ch, cn, val, fac });
            if !bad {
                for i in 0..2u8 {
                    let gap = if i == 0 || self.r.chance(3, 4) { 0 } else { self.gap() };
                    q.push_back(Item { gap, msg: Wire::Part { g, i, ch, cn: cn + 32 * i, x: [0; 3] } });
                }
            }
        } else if {
            k -= p.w_cc14_group;
            k < p.w_pn_group
        } {
            let (num, reg) = self.number();
            let kind = *self.r.pick(&[K_7BIT, K_7BIT, K_14BIT, K_14BIT, K_INC, K_DEC]);
            let order = self.r.below(2) as u8;
            let (g, n) = self.push_enc_pn(ch, num, reg, kind, order);
            for i in 0..n {
                let gap = if self.r.chance(4, 5) { 0 } else { self.gap() };
                q.push_back(Item { gap, msg: Wire::Part { g, i, ch, cn: Self::pn_part_cn(reg, kind, order, i), x: [0; 3] } });
            }
            // running continuation: only the value parts of further messages, same selection
            if self.r.chance(2, 5) {
                let k = if self.r.chance(1, 40) { 9 + self.r.below(56) } else { 1 + self.r.below(8) };
                let homogeneous = self.r.chance(9, 10);
                for _ in 0..k {
                    let kind2 = if homogeneous {
                        if kind == K_14BIT {
                            K_14BIT
                        } else {
                            *self.r.pick(&[K_7BIT, K_INC, K_DEC])
                        }
                    } else {
                        *self.r.pick(&[K_7BIT, K_14BIT, K_INC, K_DEC])
                    };
                    let order2 = if homogeneous { order } else { self.r.below(2) as u8 };
                    let (g2, n2) = self.push_enc_pn(ch, num, reg, kind2, order2);
                    for i in 2..n2 {
                        let gap = if self.r.chance(4, 5) { 0 } else { self.gap() };
                        q.push_back(Item { gap, msg: Wire::Part { g: g2, i, ch, cn: Self::pn_part_cn(reg, kind2, order2, i), x: [0; 3] } });
                    }
                }
            }
        } else if {
            k -= p.w_pn_group;
            k < p.w_sentence
        } {
            self.sentence(ch, q);
        } else if {
            k -= p.w_sentence;
            k < p.w_chaff_cc
        } {
            // arbitrary Control Changes over all 128 controller numbers
            let n = 1 + self.r.below(3);
            for _ in 0..n {
                // half of it: controllers with a meaning of their own (bank select, sustain, channel mode 120-127)
                let (cn, v) = if self.r.chance(1, 2) {
                    (*self.r.pick(&[0u8, 32, 64, 65, 120, 121, 122, 123, 124, 125, 126, 127, 102, 95]), *self.r.pick(&[0u8, 0, 127, 64, 1]))
                } else {
                    (self.r.u7(), self.r.u7())
                };
                let gap = self.gap();
                q.push_back(Item { gap, msg: Wire::Lit { b: [0xB0 | ch, cn, v] } });
            }
        } else if {
            k -= p.w_chaff_cc;
            k < p.w_chaff_other
        } {
            let hi = *self.r.pick(&[0x80u8, 0x90, 0xA0, 0xC0, 0xD0, 0xE0]);
            let (d1, d2) = self.lookalike_data();
            q.push_back(Item { gap: 0, msg: Wire::Lit { b: [hi | ch, d1, d2] } });
        } else if {
            k -= p.w_chaff_other;
            k < p.w_raw_pn
        } {
            // unstructured contributing traffic for the (N)RPN scanners
            let n = 1 + self.r.below(4);
            for _ in 0..n {
                let cn = *self.r.pick(&[6u8, 38, 96, 97, 98, 99, 100, 101, 6, 38, 6, 38, 98, 99, 100, 101]);
                let v = self.value7(ch);
                let gap = if self.r.chance(2, 3) { 0 } else { self.gap() };
                q.push_back(Item { gap, msg: Wire::Lit { b: [0xB0 | ch, cn, v] } });
            }
        } else {
            // unstructured contributing traffic for the CC14 scanner, around a few controller pairs
            let n = 1 + self.r.below(4);
            let base = *self.r.pick(&[0u8, 1, 6, 7, 30, 31]);
            for _ in 0..n {
                let cn = match self.r.below(8) {
                    0..=2 => base,
                    3..=5 => base + 32,
                    6 => *self.r.pick(&[0u8, 31, 32, 63, 33, 62]),
                    _ => self.r.below(64) as u8,
                };
                let v = self.value7(ch);
                let gap = if self.r.chance(2, 3) { 0 } else { self.gap() };
                q.push_back(Item { gap, msg: Wire::Lit { b: [0xB0 | ch, cn, v] } });
            }
        }
        if q.len() > start {
            q[start].gap = first_gap;
        }
    }

    /// A documented sentence of the polling scanner's grammar, as literal Control Changes.
    fn sentence(&mut self, ch: u8, q: &mut VecDeque<Item>) {
        let (num, reg) = self.number();
        let (x, y) = if reg { (101u8, 100u8) } else { (99, 98) };
        let (xv, yv) = ((num >> 7) as u8, (num & 0x7f) as u8);
        let mk = |cn: u8, v: u8| Wire::Lit { b: [0xB0 | ch, cn, v] };
        let mut items: Vec<Wire> = Vec::new();
        if self.r.chance(1, 2) {
            items.push(mk(x, xv));
            items.push(mk(y, yv));
        } else {
            items.push(mk(y, yv));
            items.push(mk(x, xv));
        }
        let sweep = self.cfg.value_mode == ValueMode::Sweep;
        // stratified over sentence shapes in sweep mode: unit count and unit kinds are the digits of
        // the run index, so a batch walks through all unit sequences of length <= 6 evenly
        let mut digits = self.run / 7;
        let n = if sweep {
            self.run % 7
        } else if self.r.chance(1, 50) {
            7 + self.r.below(58)
        } else {
            self.r.below(7)
        };
        let mut first = true;
        let mut after14 = false;
        for _ in 0..n {
            let pick = if sweep {
                let d = digits % 6;
                digits /= 6;
                d
            } else {
                self.r.below(6)
            };
            match pick {
                0 | 5 => {
                    items.push(mk(6, self.value7(ch)));
                    after14 = false;
                }
                1 => {
                    items.push(mk(6, self.value7(ch)));
                    items.push(mk(38, self.value7(ch)));
                    after14 = true;
                }
                2 if after14 => items.push(mk(38, self.value7(ch))),
                3 if first => {
                    items.push(mk(38, self.value7(ch)));
                    items.push(mk(6, self.value7(ch)));
                    after14 = true;
                }
                4 => {
                    let cn = 96 + self.r.below(2) as u8;
                    items.push(mk(cn, self.value7(ch)));
                    after14 = false;
                }
                _ => {
                    items.push(mk(6, self.value7(ch)));
                    after14 = false;
                }
            }
            first = false;
        }
        for m in items {
            let gap = if self.r.chance(2, 3) { 0 } else { self.gap() };
            q.push_back(Item { gap, msg: m });
        }
    }

    // ---- wire ------------------------------------------------------------------------------

    /// Applies wire faults; returns the copies to deliver with their latencies.
    fn wire(&mut self, mut m: Wire) -> Vec<(u128, Wire)> {
        let ch = m.channel();
        let mut out = Vec::new();
        if self.strikes(F_DROP, ch) {
            self.fire(F_DROP, ch);
            return out;
        }
        if self.strikes(F_CORRUPT_DATA, ch) {
            self.fire(F_CORRUPT_DATA, ch);
            let which = 1 + self.r.below(2) as usize;
            let bit = 1u8 << self.r.below(7);
            match &mut m {
                Wire::Part { x, .. } => x[which] ^= bit,
                Wire::Lit { b } => b[which] ^= bit,
            }
        }
        if self.strikes(F_CORRUPT_CHANNEL, ch) {
            // aim at a channel that has something in flight, if there is one
            let cur = ch.unwrap_or(0);
            let targets: Vec<u8> = (0..16u8).filter(|c| *c != cur && self.inflight[*c as usize]).collect();
            let to = if !targets.is_empty() && self.r.chance(2, 3) { *self.r.pick(&targets) } else { self.r.below(16) as u8 };
            let mask = (cur ^ to) & 0x0F;
            if mask != 0 {
                self.fire(F_CORRUPT_CHANNEL, Some(to));
                match &mut m {
                    Wire::Part { x, .. } => x[0] ^= mask,
                    Wire::Lit { b } => b[0] ^= mask,
                }
            }
        }
        if self.strikes(F_CORRUPT_TYPE, ch) {
            self.fire(F_CORRUPT_TYPE, ch);
            let mask = if self.r.chance(1, 5) { 0x80 } else { (1 + self.r.below(7) as u8) << 4 };
            match &mut m {
                Wire::Part { x, .. } => x[0] ^= mask,
                Wire::Lit { b } => b[0] ^= mask,
            }
        }
        if self.strikes(F_INVALID_BYTES, ch) {
            self.fire(F_INVALID_BYTES, ch);
            let which = 1 + self.r.below(2) as usize;
            match &mut m {
                Wire::Part { x, .. } => x[which] ^= 0x80,
                Wire::Lit { b } => b[which] ^= 0x80,
            }
        }
        let mut lat = if self.cfg.latency_ns > 0 { self.r.below(self.cfg.latency_ns as u64 + 1) as u128 } else { 0 };
        if self.strikes(F_REORDER, ch) {
            self.fire(F_REORDER, ch);
            lat = lat.saturating_add(match self.r.below(3) {
                0 => 1,
                1 => self.cfg.timeout_ns.min(1 << 40),
                _ => self.r.below(2_000_000) as u128,
            });
        }
        out.push((lat, m.clone()));
        if self.strikes(F_DUP_STORM, ch) {
            self.fire(F_DUP_STORM, ch);
            let k = *self.r.pick(&[15u32, 127, 255, 256, 257]);
            for _ in 0..k {
                out.push((lat, m.clone()));
            }
        }
        if self.strikes(F_DUP, ch) {
            self.fire(F_DUP, ch);
            let extra = match self.r.below(3) {
                0 => 0,
                1 => 1,
                _ => self.r.below(1_000_000) as u128,
            };
            out.push((lat.saturating_add(extra), m));
        }
        out
    }

    /// Data bytes for a message that cannot contribute: half of the time they look as if they
    /// could (data byte 1 is a contributing controller number, data byte 2 a small or recent value) -
    /// a decoder that mistakes the message type is only visible then.
    fn lookalike_data(&mut self) -> (u8, u8) {
        if self.r.chance(1, 2) {
            let d1 = *self.r.pick(&[6u8, 38, 96, 97, 98, 99, 100, 101, 0, 1, 7, 31, 32, 33, 39, 63]);
            let d2 = match self.r.below(4) {
                0 => *self.r.pick(&[0u8, 1, 127]),
                1 => self.recent[self.r.below(16) as usize][self.r.below(2) as usize],
                _ => self.r.u7(),
            };
            (d1, d2)
        } else {
            (self.r.u7(), self.r.u7())
        }
    }

    fn foreign_message(&mut self, ch: u8) -> [u8; 3] {
        // any of the 128 status bytes; CCs restricted to numbers that contribute to no scanner
        let s = if self.r.chance(1, 2) { 0xB0 | ch } else if self.r.chance(1, 2) { (0x80 + self.r.u7()) & 0xF0 | ch } else { 0x80 + self.r.u7() };
        let (d1, d2) = self.lookalike_data();
        let mut b = [s, d1, d2];
        if b[0] & 0xF0 == 0xB0 {
            if self.r.chance(1, 3) {
                b[2] = *self.r.pick(&[0u8, 127, 64]);
            }
            loop {
                let cn = if self.r.chance(1, 3) { 120 + self.r.below(8) as u8 } else { 64 + self.r.below(64) as u8 };
                if !is_pn(cn) {
                    b[1] = cn;
                    break;
                }
            }
        }
        b
    }

    // ---- emission --------------------------------------------------------------------------

    fn note_delivered(&mut self, m: &Wire) {
        if let (Some(c), Some(cn)) = (m.channel(), m.cc_cn()) {
            if cn < 64 || is_pn(cn) {
                self.inflight[c as usize] = true;
            }
            self.pending_value[c as usize] = cn == 6 || cn == 38;
        }
    }

    fn emit_wire(&mut self, m: &Wire) {
        let repr = self.repr();
        match m {
            Wire::Part { g, i, x, .. } => self.ev.push(Ev::Part { g: *g, i: *i, repr, x: *x }),
            Wire::Lit { b } => self.ev.push(Ev::Feed { b: *b, repr }),
        }
        self.note_delivered(m);
    }

    /// A knob sweep: one selection, then a long monotone run of values (14-bit fine adjustments
    /// with the MSB stepping every 128, a 14-bit CC, 7-bit data entries, or increments) - hundreds
    /// of reports in a row, each greater (or smaller) than the last. Soak loops cannot produce
    /// this: a repeated cycle has to come back down.
    fn emit_ramp(&mut self, ch: u8) {
        self.fire(F_RAMP, Some(ch));
        let repr = self.repr();
        let n = *self.r.pick(&[40u32, 130, 257, 260, 300, 520]);
        let up = self.r.chance(3, 4);
        let start: u32 = if up { self.r.below(300) as u32 } else { 16383 - self.r.below(300) as u32 };
        let val = |i: u32| -> u16 { (if up { start + i } else { start - i }) as u16 & 0x3fff };
        let form = self.r.below(4);
        let mut ev: Vec<Ev> = Vec::new();
        let mut feed = |cn: u8, v: u8| ev.push(Ev::Feed { b: [0xB0 | ch, cn, v], repr });
        match form {
            0 | 1 => {
                // (N)RPN 14-bit sweep: MSB first (polling scanner's documented form) or LSB first
                let (num, reg) = (self.r.below(16384) as u16, self.r.chance(1, 2));
                let (x, y) = if reg { (101u8, 100u8) } else { (99, 98) };
                feed(x, (num >> 7) as u8);
                feed(y, (num & 0x7f) as u8);
                let mut last_msb = 255u16;
                for i in 0..n {
                    let v = val(i);
                    if form == 0 {
                        if v >> 7 != last_msb {
                            feed(6, (v >> 7) as u8);
                            last_msb = v >> 7;
                        }
                        feed(38, (v & 0x7f) as u8);
                    } else {
                        feed(38, (v & 0x7f) as u8);
                        feed(6, (v >> 7) as u8);
                    }
                }
            }
            2 => {
                // 14-bit CC sweep
                let cn = self.r.below(32) as u8;
                let mut last_msb = 255u16;
                for i in 0..n {
                    let v = val(i);
                    if v >> 7 != last_msb {
                        feed(cn, (v >> 7) as u8);
                        last_msb = v >> 7;
                    }
                    feed(cn + 32, (v & 0x7f) as u8);
                }
            }
            _ => {
                // 7-bit data entries and increments after one selection
                feed(99, 1);
                feed(98, 2);
                for i in 0..n {
                    feed(if i % 5 == 4 { 96 } else { 6 }, (val(i) & 0x7f) as u8);
                }
            }
        }
        self.ev.extend(ev);
        self.ev.push(Ev::Adv { ns: self.cfg.timeout_ns });
        self.ev.push(Ev::Poll { ch });
        self.inflight[ch as usize] = true;
    }

    /// Saturation: every one of the 16 channels gets the same short prefix in a row (a number half,
    /// a full number, a pending value byte, a CC14 MSB ...), then something global happens (reset,
    /// a poll on every channel, nothing), then every channel is probed. "All slots in use at once"
    /// is a state that independent talkers almost never produce.
    fn emit_roll_call(&mut self) {
        self.fire(F_ROLL_CALL, None);
        let repr = self.repr();
        let kind = self.r.below(6);
        let mut order: Vec<u8> = (0..16).collect();
        for i in 0..16 {
            let j = i + self.r.below((16 - i) as u64) as usize;
            order.swap(i, j);
        }
        let reg = self.r.chance(1, 2);
        let (x, y) = if reg { (101u8, 100u8) } else { (99, 98) };
        // the same 14-bit controller on every channel (sometimes the last one, 31)
        let cn14 = if self.r.chance(1, 4) { 31 } else { self.r.below(32) as u8 };
        for &c in order.iter() {
            let v = self.value7(c);
            let w = self.value7(c);
            let mut push = |cn: u8, val: u8| self.ev.push(Ev::Feed { b: [0xB0 | c, cn, val], repr });
            match kind {
                0 => push(x, v),
                1 => {
                    push(x, v);
                    push(y, w);
                }
                2 => {
                    push(y, w);
                    push(x, v);
                    push(6, v);
                }
                3 => {
                    push(x, v);
                    push(y, w);
                    push(38, w);
                }
                4 => push(cn14, w),
                _ => {
                    push(x, v);
                    push(y, w);
                    push(6, v);
                    push(38, w);
                }
            }
        }
        match self.r.below(4) {
            0 | 1 => {
                self.ev.push(Ev::Reset);
                self.inflight = [false; 16];
            }
            2 => {
                self.ev.push(Ev::Adv { ns: self.cfg.timeout_ns });
                for c in 0..16u8 {
                    self.ev.push(Ev::Poll { ch: c });
                }
            }
            _ => {}
        }
        // probe every channel: a value byte, then (later) a poll
        for &c in order.iter() {
            let cn = *self.r.pick(&[6u8, 38, 96, 6]);
            let v = self.value7(c);
            self.ev.push(Ev::Feed { b: [0xB0 | c, if kind == 4 { 32 + cn14 } else { cn }, v], repr });
        }
        self.ev.push(Ev::Adv { ns: self.cfg.timeout_ns });
        for c in 0..16u8 {
            self.ev.push(Ev::Poll { ch: c });
        }
    }

    /// A pair (or selection + value) whose halves are separated by a long soak of unrelated
    /// activity: in-flight state must neither be lost nor resurrected by hundreds (thorough tier:
    /// 65536) of rounds of something else. Emitted as one block, straight into the trace.
    fn emit_interrupted_pair(&mut self, ch: u8) {
        let others: Vec<u8> = (0..16u8).filter(|c| *c != ch).collect();
        let d = *self.r.pick(&others);
        let repr = self.repr();
        // first half
        let cc14 = self.r.chance(1, 2);
        let (g, n_parts, split) = if cc14 {
            let g = self.next_group;
            self.next_group += 1;
            let cn = self.r.below(32) as u8;
            let val = self.value14(ch);
            let fac = self.fac();
            self.ev.push(Ev::EncCc14 { g, ch, cn, val, fac });
            (g, 2u8, 1u8)
        } else {
            let (num, reg) = self.number();
            let kind = *self.r.pick(&[K_7BIT, K_14BIT, K_14BIT, K_INC]);
            let order = self.r.below(2) as u8;
            let (g, n) = self.push_enc_pn(ch, num, reg, kind, order);
            (g, n, 1 + self.r.below(n as u64 - 1) as u8)
        };
        for i in 0..split {
            self.ev.push(Ev::Part { g, i, repr, x: [0; 3] });
        }
        // the cycle
        let k = 1 + self.r.below(3) as usize;
        for _ in 0..k {
            let e = match self.r.below(8) {
                0 | 1 => Ev::Reset,
                2 => Ev::Feed { b: [0xB0 | d, self.r.below(32) as u8, self.r.u7()], repr },
                3 => Ev::Feed { b: [0xB0 | d, *self.r.pick(&[6u8, 38, 98, 99, 100, 101, 96]), self.r.u7()], repr },
                4 => Ev::Poll { ch: if self.r.chance(1, 2) { ch } else { d } },
                5 => Ev::Adv { ns: *self.r.pick(&[1u128, self.cfg.timeout_ns.min(1 << 40), 1_000_000]) },
                6 => Ev::Feed { b: [0xB0 | ch, 64 + self.r.below(32) as u8, self.r.u7()], repr },
                _ => Ev::Feed { b: [0xC0 | ch, self.r.u7(), 0], repr },
            };
            self.ev.push(e);
        }
        let n = if self.r.chance(1, if self.p.long_pm > 2 { 8 } else { 40 }) { 65535u16 } else { *self.r.pick(&[255u16, 255, 256, 254, 511]) };
        self.fire(F_SOAK_LOOP, Some(ch));
        self.ev.push(Ev::Repeat { k: k as u8, n });
        // second half
        for i in split..n_parts {
            self.ev.push(Ev::Part { g, i, repr, x: [0; 3] });
        }
        self.ev.push(Ev::Adv { ns: self.cfg.timeout_ns });
        self.ev.push(Ev::Poll { ch });
        self.inflight = [false; 16];
    }

    /// A short cycle on ONE channel, repeated hundreds of times after a selection: half of the time
    /// the shape "value-ish byte, maybe a wait, poll" (what a steady stream of lone value bytes looks
    /// like to a polling host), otherwise 1-4 random ops of the channel's own alphabet. Then a probe.
    fn emit_cycle_soak(&mut self, ch: u8) {
        let repr = self.repr();
        let t = self.cfg.timeout_ns;
        let reg = self.r.chance(1, 2);
        let (x, y) = if reg { (101u8, 100u8) } else { (99, 98) };
        match self.r.below(4) {
            0 => {}
            1 => self.ev.push(Ev::Feed { b: [0xB0 | ch, self.r.below(32) as u8, self.r.u7()], repr }),
            _ => {
                let (a, b) = (self.value7(ch), self.value7(ch));
                self.ev.push(Ev::Feed { b: [0xB0 | ch, x, a], repr });
                self.ev.push(Ev::Feed { b: [0xB0 | ch, y, b], repr });
            }
        }
        let mut cyc: Vec<Ev> = Vec::new();
        let wait = |r: &mut Rng| match r.below(3) {
            0 => None,
            1 => Some(Ev::Adv { ns: t }),
            _ => Some(Ev::Adv { ns: t.saturating_add(1).min(DUR_MAX_NS) }),
        };
        if self.r.chance(1, 2) {
            let cn = *self.r.pick(&[6u8, 38, 96, 6, 38, 99, 98]);
            let v = self.value7(ch);
            cyc.push(Ev::Feed { b: [0xB0 | ch, cn, v], repr });
            if let Some(w) = wait(self.r) {
                cyc.push(w);
            }
            cyc.push(Ev::Poll { ch });
        } else {
            for _ in 0..(1 + self.r.below(4)) {
                let e = match self.r.below(10) {
                    0..=4 => {
                        let cn = *self.r.pick(&[6u8, 38, 96, 97, 98, 99, 100, 101, 0, 32, 1, 33]);
                        let v = self.value7(ch);
                        Ev::Feed { b: [0xB0 | ch, cn, v], repr }
                    }
                    5 | 6 => Ev::Poll { ch },
                    7 => wait(self.r).unwrap_or(Ev::Adv { ns: 1 }),
                    8 => Ev::Feed { b: [0xB0 | ch, 64 + self.r.below(32) as u8, self.r.u7()], repr },
                    _ => Ev::Reset,
                };
                cyc.push(e);
            }
        }
        let k = cyc.len() as u8;
        self.ev.extend(cyc);
        let n = if self.p.long_pm > 2 && self.r.chance(1, 12) { 65535u16 } else { *self.r.pick(&[255u16, 256, 257, 300]) };
        self.fire(F_SOAK_LOOP, Some(ch));
        self.ev.push(Ev::Repeat { k, n });
        // probe
        let v = self.value7(ch);
        self.ev.push(Ev::Feed { b: [0xB0 | ch, 6, v], repr });
        self.ev.push(Ev::Adv { ns: t });
        self.ev.push(Ev::Poll { ch });
        self.inflight[ch as usize] = true;
    }

    /// Soak loop: repeat the last few events many times (leaks and counters need many rounds of one
    /// short cycle, e.g. value byte - wait - poll).
    fn maybe_soak(&mut self) {
        let rate = self.cfg.rate[F_SOAK_LOOP];
        if rate == 0 || self.ev.len() < 2 || self.soaks >= 2 || self.r.below(1000) >= rate {
            return;
        }
        let k = (*self.r.pick(&[1u8, 2, 2, 3, 3, 3, 4, 4, 5, 6, 8])).min(self.ev.len() as u8);
        let mut n = *self.r.pick(&[3u16, 15, 127, 255, 256, 257, 257, 300, 600]);
        if self.p.long_pm > 2 && self.r.chance(1, 150) {
            // 16-bit counters: expensive, so rare, with a short window, and only in the thorough tier
            n = *self.r.pick(&[65535u16, 65534, 65533]);
        }
        let k = if n > 1000 { k.min(3) } else { k };
        self.soaks += 1;
        self.fire(F_SOAK_LOOP, None);
        self.ev.push(Ev::Repeat { k, n });
    }

    fn emit_reset(&mut self) {
        // a fraction of resets are storms: counters that wrap want powers of two
        if self.cfg.rate[F_RESET_STORM] > 0 && self.r.below(1000) < self.cfg.rate[F_RESET_STORM] {
            let n = match self.r.below(20) {
                0..=3 => 2 + self.r.below(4) as u32,
                4 => 16,
                5 => 127 + self.r.below(3) as u32,
                6..=9 => 255 + self.r.below(3) as u32,
                10..=12 => 256,
                13 => 511 + self.r.below(3) as u32,
                14 => 512,
                15 => 1024,
                16 => 768,
                17 | 18 => {
                    // 16-bit wrap: expensive (every shadow instance gets the same number of resets), so rare and thorough tier only
                    if self.p.long_pm > 2 && self.r.chance(1, 40) {
                        65535 + self.r.below(3) as u32
                    } else {
                        256 * (1 + self.r.below(4) as u32)
                    }
                }
                _ => 2 + self.r.below(600) as u32,
            };
            self.fire(F_RESET_STORM, None);
            self.ev.push(Ev::Resets { n });
        } else {
            self.ev.push(Ev::Reset);
        }
        self.inflight = [false; 16];
        self.pending_value = [false; 16];
    }

    /// Host checkpoints the scanners now and then, and sometimes restores the last checkpoint.
    fn maybe_checkpoint(&mut self) {
        let rate = self.cfg.rate[F_RESTORE];
        if rate == 0 {
            return;
        }
        if self.r.below(1000) < rate {
            self.ev.push(Ev::Snapshot);
            self.snap_state = Some((self.inflight, self.pending_value));
        } else if self.snap_state.is_some() && self.r.below(1000) < rate {
            self.fire(F_RESTORE, None);
            self.ev.push(Ev::Restore);
            let (a, b) = self.snap_state.unwrap();
            self.inflight = a;
            self.pending_value = b;
        }
    }

    fn emit_fork(&mut self) {
        let k = self.r.below(8) as u8;
        let n = self.r.below(5);
        let mut burst = Vec::new();
        for _ in 0..n {
            let ch = *self.r.pick(&self.cfg.channels.clone());
            let cn = *self.r.pick(&[6u8, 38, 96, 97, 98, 99, 100, 101, 0, 1, 32, 33]);
            burst.push([0xB0 | ch, cn, self.r.u7()]);
        }
        self.fire(F_FORK, None);
        self.ev.push(Ev::Fork { k, burst });
    }

    // ---- discrete-event rig ----------------------------------------------------------------

    fn run_rig(&mut self) {
        let chans = self.cfg.channels.clone();
        let mut heap: BinaryHeap<(Reverse<u128>, Reverse<u64>, usize)> = BinaryHeap::new();
        let mut actions: Vec<Action> = Vec::new();
        let mut seq: u64 = 0;
        let mut scripts: Vec<VecDeque<Item>> = chans.iter().map(|_| VecDeque::new()).collect();
        macro_rules! sched {
            ($at:expr, $a:expr) => {{
                actions.push($a);
                seq += 1;
                heap.push((Reverse(($at as u128).min(DUR_MAX_NS)), Reverse(seq), actions.len() - 1));
            }};
        }
        for ti in 0..chans.len() {
            let g = self.gap();
            sched!(g, Action::TalkerSend(ti));
        }
        if self.r.chance(1, 3) {
            let g = self.gap();
            sched!(g, Action::SysSend);
        }
        if self.cfg.poll_periodic.is_some() {
            sched!(0u128, Action::PollTick);
        }
        let mut host_time: u128 = 0; // sim time of the last emitted event
        let max_actions = self.cfg.len * 6 + 50;
        let mut processed = 0;
        while let Some((Reverse(at), _, ai)) = heap.pop() {
            if self.ev.len() >= self.cfg.len || processed > max_actions {
                break;
            }
            processed += 1;
            let action = actions[ai].clone();
            // advance the host clock (unless stalled)
            let emits = !matches!(action, Action::TalkerSend(_) | Action::SysSend);
            if emits && at > host_time {
                let delta = at - host_time;
                host_time = at;
                if self.stall_left > 0 {
                    self.stall_left -= 1;
                } else if self.strikes(F_CLOCK_STALL, None) {
                    self.fire(F_CLOCK_STALL, None);
                    self.stall_left = 1 + self.r.below(6) as u32;
                } else {
                    self.ev.push(Ev::Adv { ns: delta });
                }
            }
            if emits && self.strikes(F_CLOCK_JUMP, None) {
                self.fire(F_CLOCK_JUMP, None);
                let j = match self.r.below(4) {
                    0 => DUR_MAX_NS,
                    1 => u64::MAX as u128,
                    2 => self.cfg.timeout_ns.saturating_mul(1000),
                    _ => 3_600_000_000_000,
                };
                self.ev.push(Ev::Adv { ns: j.min(DUR_MAX_NS) });
            }
            match action {
                Action::TalkerSend(ti) => {
                    let ch = chans[ti];
                    if self.cfg.rate[F_ROLL_CALL] > 0 && self.r.chance(1, 12) {
                        self.cfg.rate[F_ROLL_CALL] = 0; // once per run
                        self.emit_roll_call();
                    }
                    if self.cfg.rate[F_RAMP] > 0 && self.r.chance(1, 12) {
                        self.cfg.rate[F_RAMP] = 0; // once per run
                        self.emit_ramp(ch);
                    }
                    if self.cfg.rate[F_SOAK_LOOP] > 0 && self.soaks < 2 && self.r.chance(1, 40) {
                        self.soaks += 1;
                        self.emit_interrupted_pair(ch);
                    }
                    if self.cfg.rate[F_SOAK_LOOP] > 0 && self.soaks < 2 && self.r.chance(1, 25) {
                        self.soaks += 1;
                        self.emit_cycle_soak(ch);
                    }
                    if scripts[ti].is_empty() {
                        let mut q = std::mem::take(&mut scripts[ti]);
                        self.script(ch, &mut q);
                        scripts[ti] = q;
                    }
                    if let Some(item) = scripts[ti].pop_front() {
                        for (lat, m) in self.wire(item.msg) {
                            sched!(at.saturating_add(lat), Action::Deliver(m));
                        }
                        if self.strikes(F_INJECT, Some(ch)) {
                            self.fire(F_INJECT, Some(ch));
                            let b = self.foreign_message(ch);
                            sched!(at, Action::Deliver(Wire::Lit { b }));
                        }
                    }
                    if scripts[ti].is_empty() {
                        let mut q = std::mem::take(&mut scripts[ti]);
                        self.script(ch, &mut q);
                        scripts[ti] = q;
                    }
                    let gap = scripts[ti].front().map(|i| i.gap).unwrap_or(0);
                    if at.saturating_add(gap) < DUR_MAX_NS || gap == 0 {
                        sched!(at.saturating_add(gap), Action::TalkerSend(ti));
                    } else {
                        // "forever": this talker falls silent; let one last message through at the end of time
                        sched!(DUR_MAX_NS, Action::TalkerSend(ti));
                    }
                }
                Action::SysSend => {
                    let s = 0xF0 + self.r.below(16) as u8;
                    let (d1, d2) = self.lookalike_data();
                    let b = [s, d1, d2];
                    sched!(at, Action::Deliver(Wire::Lit { b }));
                    let g = self.gap().max(1);
                    if at.saturating_add(g) < DUR_MAX_NS {
                        sched!(at.saturating_add(g), Action::SysSend);
                    }
                }
                Action::Deliver(m) => {
                    self.emit_wire(&m);
                    let ch = m.channel();
                    let created_value = matches!(m.cc_cn(), Some(6) | Some(38));
                    let created_inflight = matches!(m.cc_cn(), Some(cn) if cn < 32 || is_pn(cn));
                    if let Some(c) = ch {
                        // deadline-aimed poll for a byte the environment knows is pending
                        let t = self.cfg.timeout_ns;
                        if self.cfg.poll_deadline && created_value && self.ev.len() >= self.cfg.poll_stall_until {
                            let (d, f) = match self.r.below(4) {
                                0 => (t.saturating_sub(1), F_POLL_DEADLINE_MINUS),
                                1 | 2 => (t, F_POLL_DEADLINE_EXACT),
                                _ => (t.saturating_add(1), F_POLL_DEADLINE_PLUS),
                            };
                            if at.saturating_add(d) <= DUR_MAX_NS && (t > 0 || f != F_POLL_DEADLINE_MINUS) {
                                sched!(at.saturating_add(d), Action::PollAt(c, Some(f)));
                            }
                        }
                        if self.r.below(1000) < self.cfg.poll_after_delivery_pm && self.ev.len() >= self.cfg.poll_stall_until {
                            sched!(at, Action::PollAt(c, None));
                        }
                        if self.strikes(F_POLL_STORM, Some(c)) {
                            self.fire(F_POLL_STORM, Some(c));
                            let k = if self.r.chance(1, 12) { 255 + self.r.below(3) } else { 2 + self.r.below(4) };
                            for _ in 0..k {
                                sched!(at, Action::PollAt(c, None));
                            }
                        }
                        if created_inflight && self.strikes(F_RESET_MIDFLIGHT, Some(c)) {
                            let d = if self.r.chance(1, 2) { 0 } else { self.gap() };
                            sched!(at.saturating_add(d), Action::OperatorReset(true));
                        }
                    }
                    if self.strikes(F_RESET_PLAIN, None) {
                        let d = self.gap();
                        sched!(at.saturating_add(d), Action::OperatorReset(false));
                    }
                    if self.strikes(F_POLL_WRONG_CHANNEL, None) {
                        let c = self.r.below(16) as u8;
                        if !chans.contains(&c) {
                            self.fire(F_POLL_WRONG_CHANNEL, Some(c));
                        }
                        sched!(at, Action::PollAt(c, None));
                    }
                    if self.cfg.rate[F_FORK] > 0 && self.r.below(1000) < self.cfg.rate[F_FORK] {
                        self.emit_fork();
                    }
                    self.maybe_checkpoint();
                    self.maybe_soak();
                }
                Action::PollTick => {
                    let period = self.cfg.poll_periodic.unwrap_or(0);
                    if self.ev.len() >= self.cfg.poll_stall_until {
                        if self.cfg.poll_round_robin {
                            let c = chans[self.rr_next % chans.len()];
                            self.rr_next += 1;
                            self.ev.push(Ev::Poll { ch: c });
                        } else {
                            for &c in chans.iter() {
                                self.ev.push(Ev::Poll { ch: c });
                            }
                        }
                    } else if self.cfg.rate[F_POLL_STALL] > 0 {
                        self.fire(F_POLL_STALL, None);
                    }
                    // period 0: poll again whenever something else has happened (after the next event)
                    let next = if period == 0 { heap.peek().map(|(Reverse(t), _, _)| *t).unwrap_or(at) } else { at.saturating_add(period) };
                    if (period > 0 || !heap.is_empty()) && next <= DUR_MAX_NS {
                        // with period 0 the tick must come after the next event at that time: seq order does that
                        sched!(next, Action::PollTick);
                    }
                }
                Action::PollAt(c, f) => {
                    if let Some(f) = f {
                        self.fire(f, Some(c));
                    }
                    self.ev.push(Ev::Poll { ch: c });
                    self.maybe_soak();
                }
                Action::OperatorReset(mid) => {
                    self.fire(if mid { F_RESET_MIDFLIGHT } else { F_RESET_PLAIN }, None);
                    self.emit_reset();
                }
            }
        }
    }

    // ---- flat scheduler: every step picks uniformly among feed / poll / advance / reset --------

    fn run_flat(&mut self) {
        let chans = self.cfg.channels.clone();
        let mut scripts: Vec<VecDeque<Item>> = chans.iter().map(|_| VecDeque::new()).collect();
        let structured = self.r.chance(2, 3);
        let cns = [6u8, 38, 96, 97, 98, 99, 100, 101, 6, 38, 6, 38, 98, 99, 100, 101, 0, 1, 31, 32, 33, 63, 64, 95, 102, 120, 127];
        let (w_feed, w_poll, w_adv) = match self.p.poll_bias {
            2 => (8, 6, 6),
            _ => (10, 4, 4),
        };
        let w_misc = 2;
        let total = w_feed + w_poll + w_adv + w_misc;
        while self.ev.len() < self.cfg.len {
            let ti = self.r.below(chans.len() as u64) as usize;
            let c = chans[ti];
            let k = self.r.below(total);
            if k < w_feed {
                if self.cfg.rate[F_ROLL_CALL] > 0 && self.r.chance(1, 12) {
                    self.cfg.rate[F_ROLL_CALL] = 0; // once per run
                    self.emit_roll_call();
                }
                if self.cfg.rate[F_RAMP] > 0 && self.r.chance(1, 12) {
                    self.cfg.rate[F_RAMP] = 0; // once per run
                    self.emit_ramp(c);
                }
                if self.cfg.rate[F_SOAK_LOOP] > 0 && self.soaks < 2 && self.r.chance(1, 40) {
                    self.soaks += 1;
                    self.emit_interrupted_pair(c);
                }
                if self.cfg.rate[F_SOAK_LOOP] > 0 && self.soaks < 2 && self.r.chance(1, 25) {
                    self.soaks += 1;
                    self.emit_cycle_soak(c);
                }
                if structured {
                    if scripts[ti].is_empty() {
                        let mut q = std::mem::take(&mut scripts[ti]);
                        self.script(c, &mut q);
                        scripts[ti] = q;
                    }
                    if let Some(item) = scripts[ti].pop_front() {
                        if item.gap > 0 && self.r.chance(1, 3) {
                            self.ev.push(Ev::Adv { ns: item.gap });
                        }
                        for (_, m) in self.wire(item.msg) {
                            self.emit_wire(&m);
                        }
                    }
                } else {
                    let cn = *self.r.pick(&cns);
                    let v = self.value7(c);
                    for (_, m) in self.wire(Wire::Lit { b: [0xB0 | c, cn, v] }) {
                        self.emit_wire(&m);
                    }
                }
                if self.strikes(F_INJECT, Some(c)) {
                    self.fire(F_INJECT, Some(c));
                    let b = self.foreign_message(c);
                    self.emit_wire(&Wire::Lit { b });
                }
                if self.inflight[c as usize] && self.strikes(F_RESET_MIDFLIGHT, Some(c)) {
                    self.fire(F_RESET_MIDFLIGHT, Some(c));
                    self.emit_reset();
                }
            } else if k < w_feed + w_poll {
                self.ev.push(Ev::Poll { ch: c });
                self.maybe_soak();
            } else if k < w_feed + w_poll + w_adv {
                let t = self.cfg.timeout_ns;
                let ns = match self.r.below(9) {
                    0 => 0,
                    1 => 1,
                    2 => t.saturating_sub(1),
                    3 => t,
                    4 => t.saturating_add(1),
                    5 => t / 2,
                    6 => t.saturating_mul(3),
                    7 => {
                        if self.r.chance(1, 10) {
                            self.cast_edge()
                        } else {
                            self.r.below(1_000_000) as u128
                        }
                    }
                    _ => {
                        if self.cfg.rate[F_CLOCK_JUMP] > 0 {
                            self.fire(F_CLOCK_JUMP, None);
                            DUR_MAX_NS
                        } else {
                            self.r.below(20_000_000) as u128
                        }
                    }
                };
                self.ev.push(Ev::Adv { ns: ns.min(DUR_MAX_NS) });
            } else {
                match self.r.below(8) {
                    0 | 1 => {
                        if self.cfg.fault_free && self.p.name != "C17" && !self.r.chance(1, 4) {
                            self.ev.push(Ev::Poll { ch: c });
                        } else {
                            self.fire(F_RESET_PLAIN, None);
                            self.emit_reset();
                            for q in scripts.iter_mut() {
                                q.clear();
                            }
                        }
                    }
                    2 => {
                        let s = 0xF0 + self.r.below(16) as u8;
                        let (d1, d2) = self.lookalike_data();
                        let b = [s, d1, d2];
                        self.emit_wire(&Wire::Lit { b });
                    }
                    3 => {
                        if self.cfg.rate[F_RESTORE] > 0 && self.r.chance(1, 2) {
                            for _ in 0..8 {
                                self.maybe_checkpoint();
                            }
                        } else if self.cfg.rate[F_FORK] > 0 {
                            self.emit_fork();
                        } else {
                            self.ev.push(Ev::Poll { ch: c });
                        }
                    }
                    4 => {
                        let wc = self.r.below(16) as u8;
                        if !chans.contains(&wc) {
                            self.fire(F_POLL_WRONG_CHANNEL, Some(wc));
                        }
                        self.ev.push(Ev::Poll { ch: wc });
                    }
                    _ => {
                        let b = self.foreign_message(c);
                        self.emit_wire(&Wire::Lit { b });
                    }
                }
            }
        }
    }

    /// Fault-free epilogue: every active talker sends one freshly encoded message, the timer
    /// issues one late poll per channel. The round-trip oracles demand each is reported within
    /// that sequence itself, whatever the fault phase left behind (bounded liveness).
    fn epilogue(&mut self) {
        let chans = self.cfg.channels.clone();
        let save = self.cfg.rate;
        self.cfg.rate = [0; N_FAULTS];
        for &c in chans.iter().take(4) {
            if self.r.chance(1, 3) {
                let cn = self.r.below(32) as u8;
                let g = self.next_group;
                self.next_group += 1;
                let val = self.value14(c);
                let fac = self.fac();
                self.ev.push(Ev::EncCc14 { g, ch: c, cn, val, fac });
                for i in 0..2u8 {
                    let repr = self.repr();
                    self.ev.push(Ev::Part { g, i, repr, x: [0; 3] });
                }
            } else {
                let (num, reg) = self.number();
                let kind = *self.r.pick(&[K_7BIT, K_14BIT, K_INC, K_DEC]);
                let order = self.r.below(2) as u8;
                let (g, n) = self.push_enc_pn(c, num, reg, kind, order);
                for i in 0..n {
                    let repr = self.repr();
                    self.ev.push(Ev::Part { g, i, repr, x: [0; 3] });
                }
            }
        }
        if self.cfg.timeout_ns < DUR_MAX_NS {
            self.ev.push(Ev::Adv { ns: self.cfg.timeout_ns });
        } else {
            self.ev.push(Ev::Adv { ns: DUR_MAX_NS });
        }
        for &c in chans.iter().take(4) {
            self.ev.push(Ev::Poll { ch: c });
        }
        self.cfg.rate = save;
    }
}
