//! Host-side use of the wider public API, run inside API regions so that C18's allocation and
//! panic monitor covers it: what a real host does with every message that crosses the wire
//! (re-building it through the named factory constructors, reading it through every accessor on
//! every representation) and with every number it logs (all conversions to and from primitives).
//! Nothing here is judged against a specification (that would be C01-C06, which are not simulation
//! targets); the results only have to be produced without allocating and without panicking.

use helgoboss_midi::*;
use std::convert::TryFrom;

macro_rules! to_prims {
    ($v:expr, $acc:ident; $($t:ty),*) => { $( $acc = $acc.wrapping_add(<$t>::from($v) as u64); )* };
}
macro_rules! try_prims {
    ($nt:ty, $x:expr, $acc:ident; $($t:ty),*) => { $( if <$nt>::try_from($x as $t).is_ok() { $acc = $acc.wrapping_add(1); } )* };
}

/// All conversions between the restricted integer types and primitives, on values taken from the
/// wire (in range and out of range for the fallible ones). Returns a checksum so that nothing is
/// optimised away.
pub fn conversions(b: [u8; 3], wide: u32) -> u64 {
    let mut acc: u64 = 0;
    let d1 = U7::new(b[1] & 0x7f);
    let d2 = U7::new(b[2] & 0x7f);
    let ch = Channel::new(b[0] & 0x0f);
    let cn = ControllerNumber::new(b[1] & 0x7f);
    let kn = KeyNumber::new(b[2] & 0x7f);
    let u4 = U4::new(b[1] & 0x0f);
    let v14 = U14::new((((b[2] & 0x7f) as u16) << 7) | (b[1] & 0x7f) as u16);
    // infallible: newtype -> primitive
    to_prims!(d1, acc; u8, i8, u16, i16, u32, i32, u64, i64, u128, i128, usize, isize);
    to_prims!(ch, acc; u8, i8, u16, i16, u32, i32, u64, i64, u128, i128, usize, isize);
    to_prims!(cn, acc; u8, i8, u16, i16, u32, i32, u64, i64, u128, i128, usize, isize);
    to_prims!(kn, acc; u8, i8, u16, i16, u32, i32, u64, i64, u128, i128, usize, isize);
    to_prims!(u4, acc; u8, i8, u16, i16, u32, i32, u64, i64, u128, i128, usize, isize);
    to_prims!(v14, acc; u16, i16, u32, i32, u64, i64, u128, i128, usize, isize);
    // infallible: newtype -> newtype, primitive -> newtype
    acc = acc.wrapping_add(U14::from(d2).get() as u64);
    acc = acc.wrapping_add(U14::from(u4).get() as u64);
    acc = acc.wrapping_add(U7::from(u4).get() as u64);
    acc = acc.wrapping_add(U7::from(cn).get() as u64);
    acc = acc.wrapping_add(U7::from(kn).get() as u64);
    acc = acc.wrapping_add(ControllerNumber::from(d1).get() as u64);
    acc = acc.wrapping_add(KeyNumber::from(d1).get() as u64);
    acc = acc.wrapping_add(U4::from(ch).get() as u64);
    acc = acc.wrapping_add(Channel::from(u4).get() as u64);
    acc = acc.wrapping_add(U14::from(b[1]).get() as u64);
    acc = acc.wrapping_add(U14::from((b[2] & 0x7f) as i8).get() as u64);
    // fallible: newtype -> smaller newtype
    if U7::try_from(v14).is_ok() {
        acc += 1;
    }
    if U4::try_from(v14).is_ok() {
        acc += 1;
    }
    if U4::try_from(d1).is_ok() {
        acc += 1;
    }
    // fallible: primitive -> newtype, on the raw (possibly out-of-range) wire bytes and a wide value
    let x = b[1] as u32;
    let w = wide;
    try_prims!(U7, x, acc; u8, u16, i16, u32, i32, u64, i64, u128, i128, usize, isize);
    try_prims!(Channel, x, acc; u8, u16, i16, u32, i32, u64, i64, u128, i128, usize, isize);
    try_prims!(ControllerNumber, x, acc; u8, u16, i16, u32, i32, u64, i64, u128, i128, usize, isize);
    try_prims!(KeyNumber, x, acc; u8, u16, i16, u32, i32, u64, i64, u128, i128, usize, isize);
    try_prims!(U4, x, acc; u8, u16, i16, u32, i32, u64, i64, u128, i128, usize, isize);
    try_prims!(U14, w, acc; u16, u32, i32, u64, i64, u128, i128, usize);
    try_prims!(U7, w, acc; u16, u32, i32, u64, i64, u128, i128, usize);
    // negative sources
    let neg = -(b[2] as i32) - 1;
    try_prims!(U7, neg, acc; i16, i32, i64, i128, isize);
    try_prims!(U14, neg, acc; i32, i64, i128);
    try_prims!(Channel, neg, acc; i16, i32, i64, i128, isize);
    // constants, ordering, default
    if U7::MIN <= d1 && d1 <= U7::MAX && U14::MIN <= v14 && v14 <= U14::MAX && Channel::MIN <= ch && ch <= Channel::MAX {
        acc += 1;
    }
    acc = acc.wrapping_add(U7::default().get() as u64 + U14::default().get() as u64 + Channel::default().get() as u64);
    acc
}

/// Re-builds a valid short message through the named factory constructor of its type, for both
/// factories, and reads it back through every trait accessor. Returns whether the bytes survived
/// (raw factory) — informational only.
pub fn rebuild_and_read(b: [u8; 3]) -> bool {
    let d1 = U7::new(b[1]);
    let d2 = U7::new(b[2]);
    let ch = Channel::new(b[0] & 0x0f);
    let v14 = U14::new(((b[2] as u16) << 7) | b[1] as u16);
    fn build<T: ShortMessageFactory>(b: [u8; 3], ch: Channel, d1: U7, d2: U7, v14: U14) -> Option<T> {
        Some(match b[0] & 0xf0 {
            0x80 => T::note_off(ch, KeyNumber::from(d1), d2),
            0x90 => T::note_on(ch, KeyNumber::from(d1), d2),
            0xa0 => T::polyphonic_key_pressure(ch, KeyNumber::from(d1), d2),
            0xb0 => T::control_change(ch, ControllerNumber::from(d1), d2),
            0xc0 => T::program_change(ch, d1),
            0xd0 => T::channel_pressure(ch, d1),
            0xe0 => T::pitch_bend_change(ch, v14),
            _ => match b[0] {
                0xf0 => T::system_exclusive_start(),
                0xf1 => T::time_code_quarter_frame(TimeCodeQuarterFrame::from(d1)),
                0xf2 => T::song_position_pointer(v14),
                0xf3 => T::song_select(d1),
                0xf6 => T::tune_request(),
                0xf7 => T::system_exclusive_end(),
                0xf8 => T::timing_clock(),
                0xfa => T::start(),
                0xfb => T::r#continue(),
                0xfc => T::stop(),
                0xfe => T::active_sensing(),
                0xff => T::system_reset(),
                _ => return None, // undefined status bytes have no named constructor
            },
        })
    }
    fn read(m: &impl ShortMessage) -> u64 {
        let mut acc = m.status_byte() as u64;
        acc += m.data_byte_1().get() as u64 + m.data_byte_2().get() as u64;
        let tb = m.to_bytes();
        acc += tb.0 as u64 + tb.1.get() as u64 + tb.2.get() as u64;
        acc += m.r#type() as u8 as u64;
        acc += m.super_type() as u8 as u64 + m.main_category() as u8 as u64;
        acc += m.is_note_on() as u64 + m.is_note_off() as u64 + m.is_note() as u64;
        acc += m.channel().map(|c| c.get() as u64).unwrap_or(0);
        acc += m.key_number().map(|c| c.get() as u64).unwrap_or(0);
        acc += m.velocity().map(|c| c.get() as u64).unwrap_or(0);
        acc += m.controller_number().map(|c| c.get() as u64).unwrap_or(0);
        acc += m.control_value().map(|c| c.get() as u64).unwrap_or(0);
        acc += m.program_number().map(|c| c.get() as u64).unwrap_or(0);
        acc += m.pressure_amount().map(|c| c.get() as u64).unwrap_or(0);
        acc += m.pitch_bend_value().map(|c| c.get() as u64).unwrap_or(0);
        let st = m.to_structured();
        let back: RawShortMessage = st.to_other();
        acc + back.status_byte() as u64
    }
    let raw: Option<RawShortMessage> = build(b, ch, d1, d2, v14);
    let st: Option<StructuredShortMessage> = build(b, ch, d1, d2, v14);
    let mut ok = true;
    let mut acc = 0u64;
    if let Some(r) = raw {
        acc += read(&r);
        let (s, x, y) = r.to_bytes();
        // unused data bytes are zeroed by the named constructors
        ok &= s == b[0] && (x.get() == b[1] || x.get() == 0) && (y.get() == b[2] || y.get() == 0);
    }
    if let Some(s) = st {
        acc += read(&s);
        let o: RawShortMessage = RawShortMessage::from_other(&s);
        acc += o.status_byte() as u64;
    }
    // the generic category constructors, where the type fits
    let ty = ShortMessageType::try_from(if b[0] < 0xf0 { b[0] & 0xf0 } else { b[0] });
    if let Ok(ty) = ty {
        if b[0] < 0xf0 {
            let m: RawShortMessage = RawShortMessage::channel_message(ty, ch, d1, d2);
            acc += m.status_byte() as u64;
        } else if b[0] == 0xf0 {
            // System Exclusive start is in no category that has a generic constructor
        } else if b[0] < 0xf8 {
            let m: RawShortMessage = RawShortMessage::system_common_message(ty, d1, d2);
            acc += m.status_byte() as u64;
        } else {
            let m: StructuredShortMessage = StructuredShortMessage::system_real_time_message(ty);
            acc += m.status_byte() as u64;
        }
    }
    std::hint::black_box(acc);
    ok
}

struct FmtBuf {
    b: [u8; 96],
    n: usize,
    /// usable capacity: a log line buffer that is (nearly) full makes `write_str` fail, and the
    /// formatting code has to hand that error back
    cap: usize,
}
impl core::fmt::Write for FmtBuf {
    fn write_str(&mut self, s: &str) -> core::fmt::Result {
        let by = s.as_bytes();
        if self.n + by.len() > self.cap.min(self.b.len()) {
            return Err(core::fmt::Error);
        }
        self.b[self.n..self.n + by.len()].copy_from_slice(by);
        self.n += by.len();
        Ok(())
    }
}

/// The host's log lines use more of the formatting machinery than `{}`: alternate form, width,
/// fill, alignment, sign, zero padding, precision. All six integer types, values from the wire.
/// Only "does not panic, does not allocate" is wanted (what the text looks like is C05).
pub fn format_specs(b: [u8; 3]) -> usize {
    use core::fmt::Write;
    let d1 = U7::new(b[1] & 0x7f);
    let ch = Channel::new(b[0] & 0x0f);
    let cn = ControllerNumber::new(b[1] & 0x7f);
    let kn = KeyNumber::new(b[2] & 0x7f);
    let u4 = U4::new(b[2] & 0x0f);
    let v14 = U14::new((((b[2] & 0x7f) as u16) << 7) | (b[1] & 0x7f) as u16);
    let mut total = 0;
    macro_rules! specs {
        ($v:expr) => {{
            let mut buf = FmtBuf { b: [0; 96], n: 0, cap: 96 };
            let _ = write!(buf, "{}", $v);
            let _ = write!(buf, "{:#}", $v);
            let _ = write!(buf, "{:>6}", $v);
            let _ = write!(buf, "{:<#8}", $v);
            let _ = write!(buf, "{:^5}", $v);
            let _ = write!(buf, "{:*^#7}", $v);
            let _ = write!(buf, "{:03}", $v);
            let _ = write!(buf, "{:+}", $v);
            let _ = write!(buf, "{:.1}", $v);
            let _ = write!(buf, "{:>#1$}", $v, (b[1] % 9) as usize);
            let _ = write!(buf, "{:?}", $v);
            let _ = write!(buf, "{:#?}", $v);
            total += buf.n;
            // writer fault: the buffer has room for 0..3 more bytes only; an `Err` is the right answer
            let mut tiny = FmtBuf { b: [0; 96], n: 0, cap: (b[2] % 4) as usize };
            let mut errs = 0;
            errs += write!(tiny, "{}", $v).is_err() as usize;
            errs += write!(tiny, "{:>4}", $v).is_err() as usize;
            errs += write!(tiny, "{:?}", $v).is_err() as usize;
            errs += write!(tiny, "{:#06}", $v).is_err() as usize;
            total += errs;
        }};
    }
    specs!(d1);
    specs!(ch);
    specs!(cn);
    specs!(kn);
    specs!(u4);
    specs!(v14);
    total
}

struct NullSink(usize, usize);
impl core::fmt::Write for NullSink {
    fn write_str(&mut self, s: &str) -> core::fmt::Result {
        // writer fault: the sink takes `self.1` bytes and then fails
        if self.0 + s.len() > self.1 {
            return Err(core::fmt::Error);
        }
        self.0 += s.len();
        Ok(())
    }
}

/// A host dumps its scanners into a log when something looks wrong: `{:?}` and `{:#?}` of a value
/// (scanner in whatever state it is in, reported message) into a sink that needs no heap.
pub fn debug_dump(v: &impl core::fmt::Debug) -> usize {
    use core::fmt::Write;
    let mut s = NullSink(0, usize::MAX);
    let _ = write!(s, "{:?}", v);
    let _ = write!(s, "{:#?}", v);
    // and once more into a sink that fails after a few bytes (the dump's length decides where)
    let mut f = NullSink(0, s.0 % 23);
    let _ = write!(f, "{:?}", v);
    let mut f = NullSink(0, s.0 % 7);
    let _ = write!(f, "{:#?}", v);
    s.0
}

struct Fnv1a(u64);
impl core::hash::Hasher for Fnv1a {
    fn finish(&self) -> u64 {
        self.0
    }
    fn write(&mut self, bytes: &[u8]) {
        for b in bytes {
            self.0 = (self.0 ^ *b as u64).wrapping_mul(0x0000_0100_0000_01B3);
        }
    }
}

/// Reported messages are `Hash` (hosts key maps by them): equal messages hash equally, with a
/// hasher that needs no heap.
pub fn hash_of(v: &impl core::hash::Hash) -> u64 {
    use core::hash::Hasher;
    let mut h = Fnv1a(0xcbf2_9ce4_8422_2325);
    v.hash(&mut h);
    h.finish()
}
