#!/usr/bin/env python3
"""Self tests of the verification machinery (DESIGN.md section 9).

  ./check selftest determinism [--pairs N]      same (seed, run range) twice, in separate processes, 1/5/16 workers
  ./check selftest alarms [--seeds N] [--tier quick]   many VERIF_SEED values on the unchanged tree: zero alarms wanted
  ./check selftest mutants [name ...] [--jobs N] [--no-tests]  sensitivity: each catalogue mutant must be caught
  ./check selftest seeded [id ...]              same for the independently written changes under /verif/seeded

Scratch copies of the repository live under a temp dir outside /repo and /verif and are removed
(with their build output) when done.
"""
import json, os, shutil, subprocess, sys, tempfile, time, re
from concurrent.futures import ThreadPoolExecutor

VERIF = os.path.dirname(os.path.abspath(__file__))
CLAIMED = "C07 C08 C10 C11 C12 C13 C14 C15 C16 C17 C18".split()
TARGET = os.environ.get("MIDISIM_TARGET_DIR", os.path.join(VERIF, "target"))


def sh(cmd, env=None, cwd=None, timeout=None):
    e = dict(os.environ)
    if env:
        e.update(env)
    p = subprocess.run(cmd, shell=isinstance(cmd, str), env=e, cwd=cwd, capture_output=True, text=True, timeout=timeout)
    return p.returncode, p.stdout, p.stderr


def opt(args, name, default):
    if name in args:
        i = args.index(name)
        v = args[i + 1]
        del args[i:i + 2]
        return v
    return default


def flag(args, name):
    if name in args:
        args.remove(name)
        return True
    return False


# ------------------------------------------------------------------------------------------
def determinism(args):
    pairs = int(opt(args, "--pairs", "12"))
    runs = int(opt(args, "--runs", "4000"))
    rc, out, err = sh([os.path.join(VERIF, "check"), "build"])
    if rc != 0:
        print(out, err)
        return 2
    rel = os.path.join(TARGET, "release", "midisim")
    dev = os.path.join(TARGET, "debug", "midisim")
    bad = 0
    total = 0
    t0 = time.time()

    def one(job):
        binary, prop, seed, threads, first = job
        rc, out, err = sh([binary, "run", "--property", prop, "--seed", str(seed), "--runs", str(runs), "--first-run", str(first), "--threads", str(threads), "--digest", "1", "--replay-dir", tempfile.gettempdir() + "/midisim-selftest-replays"])
        m = re.search(r"digest=([0-9a-f]+) probes=([0-9a-f]+)", out)
        return (rc, m.group(1) if m else None, m.group(2) if m else None)

    jobs = []
    for k in range(pairs):
        prop = CLAIMED[k % len(CLAIMED)]
        seed = 1000 + 7919 * k
        first = (k % 3) * 100000
        for threads in (1, 5, 16, 16):
            jobs.append((rel, prop, seed, threads, first))
        # the unoptimised profile must take the same decisions (same traces, same verdicts)
        jobs.append((dev, prop, seed, 16, first))
    with ThreadPoolExecutor(max_workers=4) as ex:
        results = list(ex.map(one, jobs))
    per = 5
    for k in range(pairs):
        group = results[k * per:(k + 1) * per]
        total += 1
        digests = set((g[1], g[2]) for g in group[:4])
        rcs = set(g[0] for g in group)
        # debug build: traces and verdicts identical => digest identical (probe fingerprint includes api call counts, identical too)
        dd = set((g[1], g[2]) for g in group)
        ok = len(digests) == 1 and None not in [g[1] for g in group] and rcs == {0} and len(dd) == 1
        if not ok:
            bad += 1
            print("NONDETERMINISTIC: job", jobs[k * per][1:], "->", group)
    print(f"determinism: {total} (property, seed, range) batches x [1, 5, 16, 16 workers release + 16 workers dev] of {runs} runs each: {bad} mismatches ({time.time() - t0:.0f}s)")
    return 1 if bad else 0


# ------------------------------------------------------------------------------------------
def alarms(args):
    seeds = int(opt(args, "--seeds", "100"))
    tier = opt(args, "--tier", "quick")
    first = int(opt(args, "--first-seed", "2"))
    props = [a for a in args if a in CLAIMED] or CLAIMED
    rc, out, err = sh([os.path.join(VERIF, "check"), "build"])
    if rc != 0:
        print(out, err)
        return 2
    tmp = tempfile.mkdtemp(prefix="midisim-alarms-")
    bad = 0
    n = 0
    t0 = time.time()
    try:
        for s in range(first, first + seeds):
            for p in props:
                prof = "dev" if p == "C18" else "release"
                b = os.path.join(TARGET, "debug" if prof == "dev" else "release", "midisim")
                rc, out, err = sh([b, "run", "--property", p, "--tier", tier, "--seed", str(s), "--profile", prof, "--replay-dir", tmp, "--known", os.path.join(VERIF, "known_findings.json")])
                n += 1
                if rc == 0 and p != "C18":
                    # the same seed in the prod build configuration (as ./check does)
                    pb = os.path.join(TARGET, "prod", "midisim")
                    rc, out2, err2 = sh([pb, "run", "--property", p, "--tier", tier, "--seed", str(s), "--profile", "prod", "--runs", "100000", "--replay-dir", tmp, "--known", os.path.join(VERIF, "known_findings.json")])
                    out += out2
                    err += err2
                if rc != 0 or "VIOLATION" in out:
                    bad += 1
                    print(flush=True, *[f"ALARM seed={s} property={p} rc={rc}\n{out}\n{err}"])
                notes = [l for l in out.splitlines() if l.startswith("note:")]
                if notes:
                    print(f"seed={s} property={p}: " + " | ".join(notes))
    finally:
        if bad == 0:
            shutil.rmtree(tmp, ignore_errors=True)
        else:
            print("replays kept in", tmp)
    print(f"alarms: {n} check runs ({len(props)} properties x {seeds} seeds, tier {tier}): {bad} alarms ({time.time() - t0:.0f}s)")
    return 1 if bad else 0


# ------------------------------------------------------------------------------------------
class Scratch:
    """A scratch copy of /repo's working tree with its own target dir, outside /repo and /verif."""

    def __init__(self):
        self.root = tempfile.mkdtemp(prefix="midisim-scratch-")
        self.repo = os.path.join(self.root, "repo")
        self.target = os.path.join(self.root, "target")
        shutil.copytree("/repo", self.repo, ignore=shutil.ignore_patterns("target", ".git"))
        # the self tests measure the search, so the regression corpus is switched off for them
        self.env = {"MIDISIM_CORPUS": "/nonexistent", "MIDISIM_REPO": self.repo, "MIDISIM_TARGET_DIR": self.target, "MIDISIM_EVIDENCE_DIR": os.path.join(self.root, "evidence"), "MIDISIM_REPLAY_DIR": os.path.join(self.root, "replays")}

    def check(self, *a):
        return sh([os.path.join(VERIF, "check")] + list(a), env=self.env)

    def tests(self):
        rc, out, err = sh("cargo test --offline 2>&1 | grep -E 'test result|FAILED|^error' | head -8", cwd=self.repo, env={"CARGO_TARGET_DIR": os.path.join(self.root, "test-target"), "CARGO_NET_OFFLINE": "true"})
        ok = "FAILED" not in out and "error" not in out and "test result: ok" in out
        return ok, out

    def close(self):
        shutil.rmtree(self.root, ignore_errors=True)


def judge(sc, name, breaks, quick_budget_args, also_clean=None, tier_args=None):
    """Runs the quick tier of each property in `breaks`; wants VIOLATION + a replay that reproduces on
    the changed tree and passes on the unchanged one."""
    res = {}
    for p in breaks:
        rc, out, err = sc.check(p, *(tier_args or ["--tier", "quick"]), *quick_budget_args)
        m = re.search(r"VIOLATION property=(\S+) replay=(\S+)", out)
        rule = re.search(r"violated rule (\S+) in run (\d+)", out)
        mini = re.search(r"minimised from (\d+) to (\d+) events", out)
        entry = {"rc": rc, "caught": bool(rc == 1 and m and m.group(1) == p), "rule": rule.group(1) if rule else None, "run": int(rule.group(2)) if rule else None, "min_events": int(mini.group(2)) if mini else None}
        if entry["caught"]:
            rp = m.group(2)
            rc2, out2, _ = sc.check(p, "--replay", rp)
            entry["replay_reproduces"] = rc2 == 1 and f"VIOLATION property={p}" in out2
            # the same file against the unchanged tree: must pass
            rc3, out3, _ = sh([os.path.join(VERIF, "check"), p, "--replay", rp])
            entry["replay_clean_on_unchanged_tree"] = rc3 == 0
            if entry["replay_reproduces"] and rc3 == 0:
                # keep the minimised history as a regression test (replayed before every search)
                d = os.path.join(VERIF, "corpus", p)
                os.makedirs(d, exist_ok=True)
                j = json.load(open(rp))
                keep = {k: j[k] for k in ("format", "property", "rule", "detail", "shape", "trace") if k in j}
                keep["origin"] = name
                json.dump(keep, open(os.path.join(d, name + ".json"), "w"), indent=1)
        elif rc not in (0, 1):
            entry["error"] = (out + err)[-600:]
        res[p] = entry
    for p in (also_clean or []):
        rc, out, err = sc.check(p, "--tier", "quick", *quick_budget_args)
        res[p + " (must stay green)"] = {"rc": rc, "green": rc == 0}
    return res


def mutants(args):
    jobs = int(opt(args, "--jobs", "4"))
    no_tests = flag(args, "--no-tests")
    cat = json.load(open(os.path.join(VERIF, "mutants", "catalogue.json")))
    if args:
        cat = [m for m in cat if m["name"] in args]
    t0 = time.time()
    pools = [Scratch() for _ in range(min(jobs, len(cat)))]
    free = list(pools)
    import threading
    lock = threading.Lock()
    results = {}

    def work(m):
        with lock:
            sc = free.pop()
        try:
            saved = {}
            for e in m["edits"]:
                path = os.path.join(sc.repo, e["file"])
                src = open(path).read()
                saved.setdefault(path, src)
                if src.count(e["old"]) != 1:
                    for pth, orig in saved.items():
                        open(pth, "w").write(orig)
                    return m["name"], {"error": f"pattern occurs {src.count(e['old'])} times in {e['file']}"}
                open(path, "w").write(src.replace(e["old"], e["new"]))
            try:
                r = {}
                if not no_tests:
                    ok, out = sc.tests()
                    r["existing_tests_pass"] = ok
                r["checks"] = judge(sc, m["name"], m["breaks"], [])
                return m["name"], r
            finally:
                for pth, orig in saved.items():
                    open(pth, "w").write(orig)
        finally:
            with lock:
                free.append(sc)

    try:
        with ThreadPoolExecutor(max_workers=len(pools)) as ex:
            for name, r in ex.map(work, cat):
                results[name] = r
    finally:
        for sc in pools:
            sc.close()
    missed = 0
    for m in cat:
        r = results[m["name"]]
        if "error" in r:
            print(f"{m['name']:34s} ERROR {r['error']}")
            missed += 1
            continue
        cells = []
        for p, e in r["checks"].items():
            if e.get("caught"):
                okr = e.get("replay_reproduces") and e.get("replay_clean_on_unchanged_tree")
                cells.append(f"{p}:{e['rule']}@run{e['run']}/{e['min_events']}ev{'' if okr else ' REPLAY-BAD'}")
                if not okr:
                    missed += 1
            else:
                cells.append(f"{p}:MISSED(rc={e['rc']})")
                missed += 1
        tp = r.get("existing_tests_pass")
        print(f"{m['name']:34s} tests_pass={tp!s:5s} " + "  ".join(cells))
    lr = os.path.join(VERIF, "mutants", "last_results.json")
    merged = {}
    if os.path.exists(lr):
        try:
            merged = json.load(open(lr))
        except Exception:
            merged = {}
    for k, v in results.items():
        # a run without the repository's tests keeps the suite verdict of an earlier run
        if "existing_tests_pass" not in v and k in merged and "existing_tests_pass" in merged[k]:
            v["existing_tests_pass"] = merged[k]["existing_tests_pass"]
        merged[k] = v
    json.dump(merged, open(lr, "w"), indent=1)
    print(f"mutants: {len(cat)} mutants, {missed} misses/errors ({time.time() - t0:.0f}s)")
    return 1 if missed else 0


def conforming(args):
    """Variants of the implementation that still satisfy every claimed property (they differ only
    where the properties leave behaviour open, or are pure refactors). Every check must stay green
    on them: the no-false-alarm side of sensitivity."""
    cat = json.load(open(os.path.join(VERIF, "mutants", "conforming.json")))
    if args:
        cat = [m for m in cat if m["name"] in args]
    t0 = time.time()
    bad = 0
    sc = Scratch()
    try:
        for m in cat:
            saved = {}
            ok_apply = True
            for e in m["edits"]:
                path = os.path.join(sc.repo, e["file"])
                src = open(path).read()
                saved.setdefault(path, src)
                if src.count(e["old"]) != 1:
                    ok_apply = False
                    break
                open(path, "w").write(src.replace(e["old"], e["new"]))
            try:
                if not ok_apply:
                    print(f"{m['name']:48s} ERROR pattern does not apply", flush=True)
                    bad += 1
                    continue
                cells = []
                for p in CLAIMED:
                    rc, out, err = sc.check(p, "--tier", "quick")
                    if rc != 0:
                        bad += 1
                        rule = re.search(r"violated rule (\S+)", out)
                        cells.append(f"{p}:ALARM({rule.group(1) if rule else 'rc=%d' % rc})")
                        for l in out.splitlines():
                            if l.startswith("violated") or "minimised" in l:
                                print("    " + l[:400])
                    notes = [l for l in out.splitlines() if l.startswith("note: rules")]
                    if notes:
                        cells.append(f"{p}:{notes[0][:120]}")
                print(f"{m['name']:48s} " + ("all 11 checks green" if not cells else "  ".join(cells)), flush=True)
            finally:
                for pth, orig in saved.items():
                    open(pth, "w").write(orig)
    finally:
        sc.close()
    print(f"conforming: {len(cat)} variants, {bad} alarms ({time.time() - t0:.0f}s)")
    return 1 if bad else 0


def seeded(args):
    base = os.path.join(VERIF, "seeded")
    ids = sorted(d for d in os.listdir(base) if os.path.isdir(os.path.join(base, d))) if os.path.isdir(base) else []
    if args:
        ids = [i for i in ids if i in args]
    t0 = time.time()
    missed = 0
    out_of_reach = 0
    out_all = {}
    if not args and os.path.exists(os.path.join(base, "last_results.json")):
        pass
    for i in ids:
        meta = json.load(open(os.path.join(base, i, "meta.json")))
        if meta.get("out_of_reach") and i not in args:
            # documented limit of the technique (DESIGN section 11): listed, not run, not counted as caught
            print(f"{i:28s} OUT-OF-REACH (documented): {meta['out_of_reach'][:150]}")
            out_of_reach += 1
            continue
        if meta.get("not_judged_by_design") and i not in args:
            # the change moves behaviour the property leaves open, or depends on invalid input: a check that fired here would be over-strict
            print(f"{i:28s} NOT-JUDGED (by design): {meta['not_judged_by_design'][:150]}")
            out_of_reach += 1
            continue
        sc = Scratch()
        try:
            rc, out, err = sh(["git", "apply", "--unsafe-paths", "--directory", sc.repo, os.path.join(base, i, "patch.diff")], cwd="/")
            if rc != 0:
                rc, out, err = sh(["patch", "-p1", "-i", os.path.join(base, i, "patch.diff")], cwd=sc.repo)
            if rc != 0:
                print(f"{i:28s} ERROR patch does not apply: {err[:200]}")
                missed += 1
                continue
            props = meta["breaks"] if isinstance(meta["breaks"], list) else [meta["breaks"]]
            claimed = [p for p in props if p in CLAIMED]
            r = judge(sc, i, claimed, [], tier_args=meta.get("check_args"))
            out_all[i] = r
            cells = []
            for p, e in r.items():
                if e.get("caught"):
                    okr = e.get("replay_reproduces") and e.get("replay_clean_on_unchanged_tree")
                    cells.append(f"{p}:{e['rule']}@run{e['run']}/{e['min_events']}ev{'' if okr else ' REPLAY-BAD'}")
                    if not okr:
                        missed += 1
                else:
                    cells.append(f"{p}:MISSED(rc={e['rc']})")
                    missed += 1
            for p in props:
                if p not in CLAIMED:
                    cells.append(f"{p}:not-claimed")
            print(f"{i:28s} " + "  ".join(cells))
        finally:
            sc.close()
    if os.path.isdir(base):
        lr = os.path.join(base, "last_results.json")
        merged = json.load(open(lr)) if (args and os.path.exists(lr)) else {}
        merged.update(out_all)
        json.dump(merged, open(lr, "w"), indent=1)
    print(f"seeded: {len(ids)} changes, {missed} misses, {out_of_reach} documented as out of reach or not judged by design ({time.time() - t0:.0f}s)")
    return 1 if missed else 0


def main():
    args = sys.argv[1:]
    if not args:
        print(__doc__)
        return 2
    cmd = args.pop(0)
    return {"determinism": determinism, "alarms": alarms, "mutants": mutants, "seeded": seeded, "conforming": conforming}.get(cmd, lambda a: (print(__doc__), 2)[1])(args)


if __name__ == "__main__":
    sys.exit(main())
